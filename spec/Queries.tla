------------------------------ MODULE Queries ------------------------------
(***************************************************************************)
(* Read-only queries on arbitrary object graphs (property C13).             *)
(*                                                                          *)
(* Declarative layer: a query outcome is Total iff it is a value ("ok") or  *)
(* an error ("err").  "panic" (a partial operation was evaluated),          *)
(* "overflow" (recursion without bound) and "diverge" (a loop that never    *)
(* ends) are the three ways the statement forbids.  Only Total decides.     *)
(*                                                                          *)
(* Impl-shaped layer: the walkers of src/document.rs, src/outlines.rs,      *)
(* src/destinations.rs and src/toc.rs transcribed AS THE CODE IS, one step  *)
(* function per loop iteration / recursive call:                            *)
(*   DerefStep      Document::dereference          (nb_deref > DEREF_LIMIT) *)
(*   ContStep       Document::get_page_contents    (nb_deref < DEREF_LIMIT) *)
(*   RsrcStep       get_page_resources::collect_resources (already_seen)    *)
(*   NdStep         Document::get_named_destinations (recursion on Kids)    *)
(*   OutStep        Document::get_outlines (recursion on First, loop on     *)
(*                  Next), get_outline, build_outline_result                *)
(*   TocStep        Document::get_toc = get_outlines + setup_outline_page_  *)
(*                  ids + title decoding                                    *)
(*   ImgStep        Document::get_page_images (loop over XObject entries)   *)
(*   PgStep         PageTreeIter::next + size_hint as driven by the          *)
(*                  `collect()` of get_pages (Vec growth asks size_hint)      *)
(* A partial operation (indexing [0]/[1] of a short array, unwrap of an     *)
(* absent key / wrong kind) is a transition to pc = "panic".  Recursion is  *)
(* an explicit stack; entering, through a reference, a dictionary whose     *)
(* reference is already on the stack is "overflow" (the call is a           *)
(* deterministic function of that reference, so the descent never ends);    *)
(* following, in one frame, a Next reference already followed in that frame *)
(* is "diverge".  Both tests are exact (pigeon-hole: direct dictionaries    *)
(* nest finitely, so an unbounded run must repeat a reference).             *)
(*                                                                          *)
(* Depth.  A cycle guard ends cycles; it does not bound the depth of an     *)
(* ACYCLIC chain.  The machine stack is a resource: it holds StackFrames    *)
(* frames of a recursive walker.  Every recursive walker therefore carries  *)
(* its depth (Len of its stack; s.depth for collect_resources) and a call   *)
(* that would need frame StackFrames + 1 is "overflow" with class *.depth.  *)
(* A walker with an explicit budget (OutlineDepthLimit, NameTreeDepthLimit, *)
(* a loop instead of the tail recursion on Parent) returns "err" / keeps    *)
(* depth 0 instead; "as it is" (Dev_RsrcRecursion, Dev_FirstDepth,          *)
(* Dev_KidsDepth = TRUE) there is no budget and TLC refutes TotalInv by a   *)
(* behaviour whose stack grows with the chain (MC_Queries scenario          *)
(* "chain").  ChainOutcomeS is the closed form of the walkers' outcome on   *)
(* the chain families as a function of the length; MC_Queries checks it     *)
(* against the automata for every length in ChainLens, Trace_Queries uses   *)
(* it for the recorded families of 10 .. 100 000 links.                     *)
(*                                                                          *)
(* The Dev_ switches (DESIGN 2.9) re-create, when TRUE, one confirmed       *)
(* deviation each; s.cls names the class of the bad outcome — it is the     *)
(* signature of the finding.  All nine deviations are repaired in lopdf     *)
(* (fix: commits fa0a095 .. 6344b93), so "as the code is" = every switch    *)
(* FALSE; TRUE is used to seed a repaired defect back into the model        *)
(* (negative control MC_Queries_quick_cex, naming of regressions in         *)
(* Trace_Queries).                                                          *)
(*                                                                          *)
(* Values (the harness uses the same JSON shape):                           *)
(*   [k |-> kind, n |-> Int, s |-> STRING, e |-> Seq(Val), d |-> Seq(<<key, Val>>)] *)
(*   kind \in null bool int real name str arr dict stream ref | none        *)
(*   ref: n = object number, n = 0 dangling.  none = Option::None / Err.    *)
(* A document is [objs |-> Seq(Val), root |-> Val]  (object i = objs[i],    *)
(* root = the trailer's Root entry).                                        *)
(***************************************************************************)
EXTENDS Integers, Sequences, FiniteSets, SequencesExt

CONSTANTS DerefLimit,        \* Document::DEREF_LIMIT (128 in the code)
          Dev_NextCycle,     \* get_outlines: no guard on the Next loop
          Dev_FirstCycle,    \* get_outlines: no guard on the First recursion
          Dev_KidsCycle,     \* get_named_destinations: no guard on the Kids recursion
          Dev_DestIndex,     \* build_outline_result: obj_array[0], obj_array[1]
          Dev_NdUnwrapD,     \* get_named_destinations: dict.get(b"D").as_ref().unwrap()
          Dev_NdKeyStr,      \* get_named_destinations: key.as_str().unwrap()
          Dev_NdValIndex,    \* get_named_destinations: val[0], val[1]
          Dev_CsIndex,       \* get_page_images: array[0] of the ColorSpace array
          Dev_SizeHint,      \* PageTreeIter::size_hint: sum of the /Count entries, unclamped
          StackFrames,       \* frames of a recursive walker the machine stack can hold
          OutlineDepthLimit, \* budget of the First recursion (used when Dev_FirstDepth = FALSE)
          NameTreeDepthLimit,\* budget of the Kids recursion  (used when Dev_KidsDepth = FALSE)
          Dev_RsrcRecursion, \* collect_resources calls itself once per Parent link (no depth bound)
          Dev_FirstDepth,    \* get_outlines: no bound on the depth of the First recursion
          Dev_KidsDepth,     \* get_named_destinations: no bound on the depth of the Kids recursion
          FirstWalkIterative \* alternative repair of the First recursion: an explicit work list on the heap (no frame
                             \* per level, no limit; proposed_fixes/C17-outline-walk-iterative.diff) instead of a depth limit

ASSUME /\ StackFrames \in Nat /\ OutlineDepthLimit \in Nat /\ NameTreeDepthLimit \in Nat
       /\ OutlineDepthLimit + 1 < StackFrames /\ NameTreeDepthLimit + 1 < StackFrames
       /\ FirstWalkIterative \in BOOLEAN /\ (FirstWalkIterative => ~Dev_FirstDepth)

Mk(k, n, s, e, d) == [k |-> k, n |-> n, s |-> s, e |-> e, d |-> d]
None      == Mk("none", 0, "", <<>>, <<>>)
Null      == Mk("null", 0, "", <<>>, <<>>)
BoolV      == Mk("bool", 1, "", <<>>, <<>>)
IntV(n)    == Mk("int", n, "", <<>>, <<>>)
RealV      == Mk("real", 0, "", <<>>, <<>>)
Name(s)   == Mk("name", 0, s, <<>>, <<>>)
Str(s)    == Mk("str", 0, s, <<>>, <<>>)
Arr(e)    == Mk("arr", 0, "", e, <<>>)
Dict(d)   == Mk("dict", 0, "", <<>>, d)
Stream(d, s) == Mk("stream", 0, s, <<>>, d)
Ref(n)    == Mk("ref", n, "", <<>>, <<>>)

Final == {"ok", "err", "panic", "overflow", "diverge"}

\* ---- declarative layer ---------------------------------------------------
Total(outcome) == outcome \in {"ok", "err"}

-----------------------------------------------------------------------------
(* lopdf's accessors *)

NObj(doc)      == Len(doc.objs)
HasObj(doc, i) == i \in 1..Len(doc.objs)

\* Dictionary::get (on a dict or on the dictionary of a stream); None = Err(DictKey)
DGet(v, key) ==
    LET idx == {i \in 1..Len(v.d) : v.d[i][1] = key}
    IN IF idx = {} THEN None ELSE v.d[CHOOSE i \in idx : TRUE][2]

\* ---- Document::dereference: one action per iteration of the while-let loop
DerefInit(v) == [pc |-> "run", cur |-> v, nb |-> 0, cls |-> ""]

DerefStep(doc, s) ==
    IF s.cur.k # "ref" THEN [s EXCEPT !.pc = "ok"]
    ELSE IF ~HasObj(doc, s.cur.n) THEN [s EXCEPT !.pc = "err"]                 \* ObjectNotFound
    ELSE IF s.nb + 1 > DerefLimit THEN [s EXCEPT !.pc = "err", !.nb = s.nb + 1] \* ReferenceLimit
    ELSE [s EXCEPT !.cur = doc.objs[s.cur.n], !.nb = s.nb + 1]

RECURSIVE DerefRun(_, _)
DerefRun(doc, s) == IF s.pc \in Final THEN s ELSE DerefRun(doc, DerefStep(doc, s))

Deref(doc, v) == LET r == DerefRun(doc, DerefInit(v)) IN IF r.pc = "ok" THEN r.cur ELSE None

\* Document::get_object / get_dictionary / get_dict_in_dict / catalog
GetObject(doc, id)     == IF HasObj(doc, id) THEN Deref(doc, doc.objs[id]) ELSE None
GetDictionary(doc, id) == LET o == GetObject(doc, id) IN IF o.k = "dict" THEN o ELSE None
GetDictInDict(doc, node, key) ==
    LET v == DGet(node, key)
    IN IF v.k = "ref" THEN GetDictionary(doc, v.n)
       ELSE IF v.k = "dict" THEN v ELSE None
Catalog(doc) == IF doc.root.k = "ref" THEN GetDictionary(doc, doc.root.n) ELSE None

-----------------------------------------------------------------------------
(* Document::get_page_contents(page_id): the manual reference walk with nb_deref *)

ContInit(doc, id) ==
    LET page == GetDictionary(doc, id)
        c    == IF page = None THEN None ELSE DGet(page, "Contents")
    IN IF c = None THEN [pc |-> "ok", cur |-> None, nb |-> 0, out |-> <<>>, cls |-> ""]
       ELSE [pc |-> "run", cur |-> c, nb |-> 0, out |-> <<>>, cls |-> ""]

\* (folds, not recursive definitions: the chains of scenario "chain" make these sequences hundreds long)
RefIds(es) == FoldLeft(LAMBDA acc, v : IF v.k = "ref" THEN Append(acc, v.n) ELSE acc, <<>>, es)

ContStep(doc, s) ==
    IF s.cur.k = "ref" THEN
        IF ~HasObj(doc, s.cur.n) \/ doc.objs[s.cur.n].k = "stream"
        THEN [s EXCEPT !.pc = "ok", !.out = Append(s.out, s.cur.n)]
        ELSE IF s.nb + 1 < DerefLimit
             THEN [s EXCEPT !.cur = doc.objs[s.cur.n], !.nb = s.nb + 1]
             ELSE [s EXCEPT !.pc = "ok", !.nb = s.nb + 1]
    ELSE IF s.cur.k = "arr" THEN [s EXCEPT !.pc = "ok", !.out = s.out \o RefIds(s.cur.e)]
    ELSE [s EXCEPT !.pc = "ok"]

RECURSIVE ContRun(_, _)
ContRun(doc, s) == IF s.pc \in Final THEN s ELSE ContRun(doc, ContStep(doc, s))

-----------------------------------------------------------------------------
(* Document::get_page_resources(page_id): collect_resources recursion with already_seen *)

RsrcInit(doc, id) ==
    LET page == GetDictionary(doc, id)
    IN IF page = None THEN [pc |-> "ok", node |-> None, ids |-> <<>>, seen |-> {}, depth |-> 0, cls |-> ""]
       ELSE [pc |-> "run", node |-> page, ids |-> <<>>, seen |-> {}, depth |-> 0, cls |-> ""]

RsrcStep(doc, s) ==
    LET r    == DGet(s.node, "Resources")
        ids1 == IF r.k = "ref" THEN Append(s.ids, r.n) ELSE s.ids
        p    == DGet(s.node, "Parent")
    IN IF p.k # "ref" THEN [s EXCEPT !.pc = "ok", !.ids = ids1]
       ELSE IF p.n \in s.seen THEN [s EXCEPT !.pc = "err", !.ids = ids1]          \* ReferenceCycle
       ELSE LET pd == GetDictionary(doc, p.n)
            IN IF pd = None THEN [s EXCEPT !.pc = "err", !.ids = ids1, !.seen = s.seen \cup {p.n}]
               ELSE IF ~Dev_RsrcRecursion                                          \* repaired: a loop, no frame per link
                    THEN [s EXCEPT !.node = pd, !.ids = ids1, !.seen = s.seen \cup {p.n}]
               ELSE IF s.depth + 1 > StackFrames                                   \* collect_resources(parent_dict, ..)?
                    THEN [s EXCEPT !.pc = "overflow", !.cls = "resources.parent.depth", !.ids = ids1]
               ELSE [s EXCEPT !.node = pd, !.ids = ids1, !.seen = s.seen \cup {p.n}, !.depth = s.depth + 1]

RECURSIVE RsrcRun(_, _)
RsrcRun(doc, s) == IF s.pc \in Final THEN s ELSE RsrcRun(doc, RsrcStep(doc, s))

-----------------------------------------------------------------------------
(* Document::get_named_destinations(tree, map): recursion on Kids, then the Names pairs.   *)
(* A frame is [node, via, ph, i]: via = the reference through which the dictionary was    *)
(* entered (-1: handed in directly); ph = "kids" / "names"; i = next kid / next pair.      *)
(* Every error return is `?`-propagated through all callers, so "err" is final.            *)

NdFrame(node, via) == [node |-> node, via |-> via, ph |-> "kids", i |-> 1]

NdInit(tree) == [pc |-> "run", stack |-> <<NdFrame(tree, -1)>>, keys |-> <<>>, seen |-> {}, cls |-> ""]

\* Document::get_dests_dictionary (PDF 1.1 catalog /Dests: names -> destination array, or dictionary with /D; either may
\* be a reference; anything else is skipped).  Total by construction; yields <<name, page>> entries.
DestsDictKeys(doc, dd) ==
    LET entry(p) ==
            LET v == Deref(doc, p[2])
                a == IF v.k = "arr" THEN v ELSE IF v.k = "dict" THEN Deref(doc, DGet(v, "D")) ELSE None
            IN IF a.k = "arr" /\ Len(a.e) >= 2 THEN <<<<p[1], a.e[1]>>>> ELSE <<>>
    IN FoldLeft(LAMBDA acc, p : acc \o entry(p), <<>>, dd.d)

NdStep(doc, s) ==
    LET top  == s.stack[Len(s.stack)]
        rest == SubSeq(s.stack, 1, Len(s.stack) - 1)
        SetTop(f)    == [s EXCEPT !.stack = Append(rest, f)]
        Pop          == IF rest = <<>> THEN [s EXCEPT !.pc = "ok", !.stack = <<>>] ELSE [s EXCEPT !.stack = rest]
        Fail(pc, c)  == [s EXCEPT !.pc = pc, !.cls = c]
        Partial(dev, c) == IF dev THEN Fail("panic", c) ELSE Fail("err", "")
    IN
    IF top.ph = "kids" THEN
        LET kraw == DGet(top.node, "Kids")
            kids == Deref(doc, kraw)                                          \* self.dereference(kids)?.1.as_array()?
        IN IF kraw = None THEN SetTop([top EXCEPT !.ph = "names", !.i = 1])
           ELSE IF kids.k # "arr" THEN Fail("err", "")                           \* (None: the reference does not resolve)
           ELSE IF top.i > Len(kids.e) THEN SetTop([top EXCEPT !.ph = "names", !.i = 1])
           ELSE LET kid == kids.e[top.i]
                    adv == [top EXCEPT !.i = top.i + 1]
                    kd  == IF kid.k = "ref" THEN GetDictionary(doc, kid.n) ELSE None
                    enter == Append(Append(rest, adv), NdFrame(kd, kid.n))
                    \* the callee runs at depth Len(s.stack) (the root call at depth 0) and needs one more frame
                    Call(s2) == IF ~Dev_KidsDepth /\ Len(s.stack) > NameTreeDepthLimit THEN Fail("err", "")
                                ELSE IF Len(s.stack) + 1 > StackFrames THEN Fail("overflow", "nameddest.kids.depth")
                                ELSE s2
                IN IF kd = None THEN SetTop(adv)
                   ELSE IF Dev_KidsCycle
                        THEN IF \E j \in 1..Len(s.stack) : s.stack[j].via = kid.n
                             THEN Fail("overflow", "nameddest.kids.cycle")
                             ELSE Call([s EXCEPT !.stack = enter])
                        ELSE IF kid.n \in s.seen THEN SetTop(adv)                \* repaired: visited set
                             ELSE Call([s EXCEPT !.stack = enter, !.seen = s.seen \cup {kid.n}])
    ELSE
        LET nraw  == DGet(top.node, "Names")
            names == Deref(doc, nraw)                                         \* self.dereference(names)?.1.as_array()?
        IN IF nraw = None THEN Pop
           ELSE IF names.k # "arr" THEN Fail("err", "")
           ELSE IF 2 * top.i > Len(names.e) THEN Pop                             \* key or value missing: break
           ELSE LET key == names.e[2 * top.i - 1]
                    val == names.e[2 * top.i]
                    adv == SetTop([top EXCEPT !.i = top.i + 1])
                    FromArr(a) ==          \* Destination::new(key, val[0], val[1]); key.as_str().unwrap()
                        IF Len(a.e) < 2 THEN Partial(Dev_NdValIndex, "nameddest.val.short")
                        ELSE IF key.k # "str" THEN Partial(Dev_NdKeyStr, "nameddest.key.notstring")
                        ELSE [adv EXCEPT !.keys = Append(s.keys, <<key.s, a.e[1]>>)]
                    FromDict(dd) ==        \* dict.get(b"D").as_ref().unwrap().as_array()?
                        LET Draw == DGet(dd, "D")
                            D    == Deref(doc, Draw)                          \* self.dereference(dict.get(b"D")?)?.1.as_array()?
                        IN IF Draw = None THEN Partial(Dev_NdUnwrapD, "nameddest.D.absent")
                           ELSE IF D.k # "arr" THEN Fail("err", "")
                           ELSE FromArr(D)
                IN IF val.k = "ref" THEN
                       LET dd == GetDictionary(doc, val.n)
                           o  == GetObject(doc, val.n)
                       IN IF dd # None THEN FromDict(dd)
                          ELSE IF o.k = "arr" THEN FromArr(o)
                          ELSE adv
                   ELSE IF val.k = "dict" THEN FromDict(val)
                   ELSE adv

RECURSIVE NdRun(_, _)
NdRun(doc, s) == IF s.pc \in Final THEN s ELSE NdRun(doc, NdStep(doc, s))

-----------------------------------------------------------------------------
(* PageTreeIter as driven by get_pages(): `page_iter().enumerate().map(..).collect()` first    *)
(* collects into a Vec, which asks size_hint() after the first page and whenever it is full.   *)
(* size_hint adds max(0, /Count) of every pending Pages node: file-controlled and unclamped,   *)
(* so `Vec::with_capacity(lower + 1)` is a partial operation ("capacity overflow").  Integers   *)
(* n >= Huge stand for values near i64::MAX.  (The walk itself is property C12's subject.)     *)

Huge == 1073741824
PageTreeDepthLimit == 256

TypeOf(dd) == LET t == DGet(dd, "Type")
              IN IF t.k = "name" THEN t.s ELSE IF DGet(dd, "Linearized") # None THEN "Linearized" ELSE ""

PgKids(doc, id) ==
    LET pt == GetDictionary(doc, id)
        k  == IF pt = None THEN None ELSE Deref(doc, DGet(pt, "Kids"))
    IN IF k.k = "arr" THEN k.e ELSE <<>>

PgInit(doc) ==
    LET cat == Catalog(doc)
        pr  == IF cat = None THEN None ELSE DGet(cat, "Pages")
    IN [pc |-> "run", kids |-> IF pr.k = "ref" THEN PgKids(doc, pr.n) ELSE <<>>, stack |-> <<>>,
        limit |-> NObj(doc), out |-> <<>>, cap |-> 0, cls |-> ""]

\* one summand of size_hint
PgTerm(doc, kid) ==
    LET kd == IF kid.k = "ref" THEN GetDictionary(doc, kid.n) ELSE None
        c  == Deref(doc, DGet(kd, "Count"))
    IN IF kd # None /\ TypeOf(kd) = "Pages" THEN (IF c.k = "int" /\ c.n > 0 THEN c.n ELSE 0) ELSE 1

PgHintHuge(doc, kids, stack) ==
    \/ \E i \in 1..Len(kids) : PgTerm(doc, kids[i]) >= Huge
    \/ \E j \in 1..Len(stack) : \E i \in 1..Len(stack[j]) : PgTerm(doc, stack[j][i]) >= Huge

PgHint(doc, kids, stack) ==      \* only evaluated when no summand is huge
    LET K[i \in 0..Len(kids)] == IF i = 0 THEN 0 ELSE K[i - 1] + PgTerm(doc, kids[i])
        L(q) == LET F[i \in 0..Len(q)] == IF i = 0 THEN 0 ELSE F[i - 1] + PgTerm(doc, q[i]) IN F[Len(q)]
        S[j \in 0..Len(stack)] == IF j = 0 THEN 0 ELSE S[j - 1] + L(stack[j])
    IN K[Len(kids)] + S[Len(stack)]

Max2(a, b) == IF a >= b THEN a ELSE b

PgStep(doc, s) ==
    IF s.kids # <<>> THEN
        IF s.limit = 0 THEN [s EXCEPT !.pc = "ok"]
        ELSE LET kid  == Head(s.kids)
                 rest == Tail(s.kids)
                 kd   == IF kid.k = "ref" THEN GetDictionary(doc, kid.n) ELSE None
                 ty   == IF kd = None THEN "" ELSE TypeOf(kd)
                 s1   == [s EXCEPT !.limit = s.limit - 1, !.kids = rest]
                 len  == Len(s.out)
                 ask  == len = 0 \/ len = s.cap                 \* the Vec has to allocate / grow
             IN IF ty = "Page" THEN
                    IF ask /\ PgHintHuge(doc, rest, s.stack)
                    THEN IF Dev_SizeHint THEN [s1 EXCEPT !.pc = "panic", !.cls = "pages.count.huge"]
                         ELSE [s1 EXCEPT !.out = Append(s.out, kid.n), !.cap = Max2(4, 2 * s.cap)]   \* repaired: clamped
                    ELSE IF ask
                         THEN [s1 EXCEPT !.out = Append(s.out, kid.n),
                                         !.cap = IF len = 0 THEN Max2(4, PgHint(doc, rest, s.stack) + 1)
                                                 ELSE Max2(2 * s.cap, len + PgHint(doc, rest, s.stack) + 1)]
                         ELSE [s1 EXCEPT !.out = Append(s.out, kid.n)]
                ELSE IF ty = "Pages" /\ Len(s.stack) < PageTreeDepthLimit
                     THEN [s1 EXCEPT !.stack = IF rest # <<>> THEN Append(s.stack, rest) ELSE s.stack,
                                     !.kids = PgKids(doc, kid.n)]
                ELSE s1
    ELSE IF s.stack # <<>> THEN [s EXCEPT !.kids = s.stack[Len(s.stack)], !.stack = SubSeq(s.stack, 1, Len(s.stack) - 1)]
    ELSE [s EXCEPT !.pc = "ok"]

RECURSIVE PgRun(_, _)
PgRun(doc, s) == IF s.pc \in Final THEN s ELSE PgRun(doc, PgStep(doc, s))

-----------------------------------------------------------------------------
(* Document::get_outline(node, named_destinations) and build_outline_result:               *)
(* straight-line code, result [r, title, page, cls] with r \in some / none / err / panic.   *)

OlRes(r, title, page, c) == [r |-> r, title |-> title, page |-> page, cls |-> c]

BuildOutlineResult(doc, dest0, title, keys) ==
    LET viaref == dest0.k = "ref"
        dest   == IF viaref THEN GetObject(doc, dest0.n) ELSE dest0          \* Object::Reference: recurse once
        hits   == {i \in 1..Len(keys) : keys[i][1] = dest.s}
    IN IF dest = None THEN OlRes("err", None, None, "")
       ELSE IF dest.k = "arr" THEN
                IF Len(dest.e) < 2                                            \* obj_array[0], obj_array[1]
                THEN IF Dev_DestIndex THEN OlRes("panic", None, None, "outline.dest.short")
                                      ELSE OlRes("err", None, None, "")
                ELSE OlRes("some", title, dest.e[1], "")
       ELSE IF dest.k \in {"str", "name"} THEN                              \* Object::String(key, _) | Object::Name(key)
                IF hits = {} THEN OlRes("none", None, None, "")
                ELSE OlRes("some", title, keys[CHOOSE i \in hits : \A j \in hits : j <= i][2], "")
       ELSE OlRes("err", None, None, "")

GetOutline(doc, node, keys) ==
    LET action == GetDictInDict(doc, node, "A")
        E      == OlRes("err", None, None, "")
        dest   == DGet(node, "Dest")
        title  == DGet(node, "Title")
    IN IF action = None THEN
           IF dest = None \/ title = None THEN E ELSE BuildOutlineResult(doc, dest, title, keys)
       ELSE LET S == DGet(action, "S")
                D == DGet(action, "D")
            IN IF S = None \/ S.k # "name" THEN E
               ELSE IF S.s \notin {"GoTo", "GoToR"} THEN E
               ELSE IF title = None THEN E
               ELSE IF title.k = "ref" THEN
                        IF D = None THEN E
                        ELSE LET t == GetObject(doc, title.n)
                             IN IF t = None THEN E ELSE BuildOutlineResult(doc, D, t, keys)
               ELSE IF title.k = "str" THEN (IF D = None THEN E ELSE BuildOutlineResult(doc, D, title, keys))
               ELSE E

-----------------------------------------------------------------------------
(* Document::get_outlines(None, None, map).  State:                                          *)
(*   pc = "nd"   the named-destination tree is being read (sub-walker state in s.nd)         *)
(*   pc = "run"  the outline walk; frame [node, via, ph, nx]: ph = "outline" / "first" /     *)
(*               "next" inside one iteration of the `loop`, nx = Next references followed    *)
(*               in this frame                                                               *)
(*   dests       every Outline::Destination pushed so far, as <<title, page>>                *)

OlFrame(node, via) == [node |-> node, via |-> via, ph |-> "outline", nx |-> {}]

OutInit(doc) ==
    LET cat  == Catalog(doc)
        dn0  == IF cat = None THEN None ELSE GetDictInDict(doc, cat, "Outlines")
        f    == IF dn0 = None THEN None ELSE GetDictInDict(doc, dn0, "First")
        dn   == IF f # None THEN f ELSE dn0
        t1   == GetDictInDict(doc, cat, "Dests")                          \* PDF 1.1: a dictionary of destinations
        k0   == IF t1 # None THEN DestsDictKeys(doc, t1) ELSE <<>>
        nm   == GetDictInDict(doc, cat, "Names")                          \* PDF 1.2: the name tree Names/Dests
        tree == IF nm # None THEN GetDictInDict(doc, nm, "Dests") ELSE None
        base == [pc |-> "run", nd |-> [NdInit(None) EXCEPT !.keys = k0], stack |-> <<>>, dests |-> <<>>, seen |-> {},
                 cls |-> "", i |-> 1]
    IN IF cat = None \/ dn0 = None THEN [base EXCEPT !.pc = "err"]
       ELSE IF tree # None THEN [base EXCEPT !.pc = "nd", !.nd = [NdInit(tree) EXCEPT !.keys = k0], !.stack = <<OlFrame(dn, -1)>>]
       ELSE [base EXCEPT !.stack = <<OlFrame(dn, -1)>>]

OutStep(doc, s) ==
    IF s.pc = "nd" THEN
        LET n2 == NdStep(doc, s.nd)
        IN IF n2.pc = "ok" THEN [s EXCEPT !.nd = n2, !.pc = "run"]
           ELSE IF n2.pc \in Final THEN [s EXCEPT !.nd = n2, !.pc = n2.pc, !.cls = n2.cls]   \* `?`
           ELSE [s EXCEPT !.nd = n2]
    ELSE
    LET top  == s.stack[Len(s.stack)]
        rest == SubSeq(s.stack, 1, Len(s.stack) - 1)
        SetTop(f)   == [s EXCEPT !.stack = Append(rest, f)]
        Pop         == IF rest = <<>> THEN [s EXCEPT !.pc = "ok", !.stack = <<>>] ELSE [s EXCEPT !.stack = rest]
        Fail(pc, c) == [s EXCEPT !.pc = pc, !.cls = c]
    IN
    IF top.ph = "outline" THEN                   \* if let Ok(Some(outline)) = self.get_outline(..) { push }
        LET o == GetOutline(doc, top.node, s.nd.keys)
            f == [top EXCEPT !.ph = "first"]
        IN IF o.r = "panic" THEN Fail("panic", o.cls)
           ELSE IF o.r = "some" THEN [s EXCEPT !.stack = Append(rest, f), !.dests = Append(s.dests, <<o.title, o.page>>)]
           ELSE SetTop(f)
    ELSE IF top.ph = "first" THEN                \* if let Ok(first) = node.get(b"First") { self.get_outlines(Some(first.clone()), ..)? }
        LET fv    == DGet(top.node, "First")
            f     == [top EXCEPT !.ph = "next"]
            child == IF fv.k = "dict" THEN fv
                     ELSE IF fv.k = "ref" THEN GetDictionary(doc, fv.n)      \* get_object(node.as_reference()?)?.as_dict()?
                     ELSE None
            via   == IF fv.k = "ref" THEN fv.n ELSE -1
            enter == Append(Append(rest, f), OlFrame(child, via))
            \* the callee runs at depth Len(s.stack) (the top-level call at depth 0) and needs one more frame
            Call(s2) == IF FirstWalkIterative THEN s2                 \* the "stack" of this automaton is then a heap work list
                        ELSE IF ~Dev_FirstDepth /\ Len(s.stack) > OutlineDepthLimit THEN Fail("err", "")
                        ELSE IF Len(s.stack) + 1 > StackFrames THEN Fail("overflow", "outline.first.depth")
                        ELSE s2
        IN IF fv = None THEN SetTop(f)
           ELSE IF via # -1 /\ ~Dev_FirstCycle /\ via \in s.seen THEN SetTop(f)  \* visited.insert(id) comes before the lookup
           ELSE IF child = None THEN Fail("err", "")
           ELSE IF via = -1 THEN Call([s EXCEPT !.stack = enter])
           ELSE IF Dev_FirstCycle
                THEN IF \E j \in 1..Len(s.stack) : s.stack[j].via = via
                     THEN Fail("overflow", "outline.first.cycle")
                     ELSE Call([s EXCEPT !.stack = enter])
                ELSE IF via \in s.seen THEN SetTop(f)                          \* repaired: visited set
                     ELSE Call([s EXCEPT !.stack = enter, !.seen = s.seen \cup {via}])
    ELSE                                          \* node = match self.get_dict_in_dict(node, b"Next") { Ok(n) => n, Err(_) => break }
        LET nv  == DGet(top.node, "Next")
            nd  == GetDictInDict(doc, top.node, "Next")
            via == IF nv.k = "ref" THEN nv.n ELSE -1
            go  == [top EXCEPT !.node = nd, !.ph = "outline", !.nx = IF via = -1 THEN top.nx ELSE top.nx \cup {via}]
            PopSeen == [Pop EXCEPT !.seen = s.seen \cup {via}]
        IN IF via # -1 /\ ~Dev_NextCycle                 \* if let Ok(Reference(id)) = node.get(b"Next") { if !visited.insert(id) { break } }
           THEN IF via \in s.seen THEN Pop
                ELSE IF nd = None THEN PopSeen            \* the reference is recorded even when it names no dictionary
                ELSE [s EXCEPT !.stack = Append(rest, go), !.seen = s.seen \cup {via}]
           ELSE IF nd = None THEN Pop
           ELSE IF via = -1 THEN SetTop(go)
           ELSE IF via \in top.nx THEN Fail("diverge", "outline.next.cycle") ELSE SetTop(go)

RECURSIVE OutRun(_, _)
OutRun(doc, s) == IF s.pc \in Final THEN s ELSE OutRun(doc, OutStep(doc, s))

-----------------------------------------------------------------------------
(* Document::get_toc: get_outlines, then per destination title.as_str()?, page.as_reference()? *)
(* (setup_outline_page_ids) and the title decoding.  Titles are symbolic byte strings:          *)
(* "BE"/"LE" = a UTF-16 byte-order mark, "+k" = k more bytes.                                   *)

TitleLen(t) == CASE t = "" -> 0 [] t = "a" -> 1 [] t = "ab" -> 2 [] t = "t" -> 1
                 [] t = "BE" -> 2 [] t = "BE+1" -> 3 [] t = "BE+2" -> 4
                 [] t = "LE" -> 2 [] t = "LE+1" -> 3 [] t = "LE+2" -> 4 [] OTHER -> 5
HasBom(t) == t \in {"BE", "BE+1", "BE+2", "LE", "LE+1", "LE+2"}

\* title.chunks(2): the lengths of the chunks of an n-byte title
ChunkLens(n) == {IF 2 * j <= n THEN 2 ELSE 1 : j \in 1..((n + 1) \div 2)}

\* the decoding branch of get_toc: title[0], title[1] behind `title.len() < 2`; x[0], x[1] of every
\* chunk behind `title.len() & 1 != 0` (an odd title is reported in toc.errors and skipped)
TitleDecode(t) ==
    IF TitleLen(t) < 2 THEN "ok"
    ELSE IF HasBom(t) THEN IF TitleLen(t) % 2 # 0 THEN "ok"
                           ELSE IF \E c \in ChunkLens(TitleLen(t)) : c < 2 THEN "panic" ELSE "ok"
    ELSE "ok"

TocStep(doc, s) ==
    IF s.pc = "post" THEN                      \* setup_outline_page_ids: title()?.as_str()?, page()?.as_reference()?
        IF s.i > Len(s.dests) THEN
            LET pg == PgRun(doc, PgInit(doc))   \* setup_page_id_to_num: self.get_pages()
            IN IF pg.pc = "panic" THEN [s EXCEPT !.pc = "panic", !.cls = pg.cls] ELSE [s EXCEPT !.pc = "decode", !.i = 1]
        ELSE LET t == s.dests[s.i][1]  p == s.dests[s.i][2]
             IN IF t.k # "str" \/ p.k # "ref" THEN [s EXCEPT !.pc = "err"] ELSE [s EXCEPT !.i = s.i + 1]
    ELSE IF s.pc = "decode" THEN               \* the title decoding loop
        IF s.i > Len(s.dests) THEN [s EXCEPT !.pc = "ok"]
        ELSE IF TitleDecode(s.dests[s.i][1].s) # "ok" THEN [s EXCEPT !.pc = "panic", !.cls = "toc.title"]
        ELSE [s EXCEPT !.i = s.i + 1]
    ELSE LET o == OutStep(doc, s)
         IN IF o.pc = "ok" THEN [o EXCEPT !.pc = "post", !.i = 1] ELSE o

RECURSIVE TocRun(_, _)
TocRun(doc, s) == IF s.pc \in Final THEN s ELSE TocRun(doc, TocStep(doc, s))

-----------------------------------------------------------------------------
(* Document::get_page_images(page_id): one step per entry of the XObject dictionary *)

ImgInit(doc, id) ==
    LET page == GetDictionary(doc, id)
        res  == IF page = None THEN None ELSE GetDictInDict(doc, page, "Resources")
        xo   == IF res = None THEN None ELSE GetDictInDict(doc, res, "XObject")
        base == [pc |-> "run", xo |-> None, i |-> 1, n |-> 0, cls |-> ""]
    IN IF page = None THEN [base EXCEPT !.pc = "ok"]
       ELSE IF res = None \/ xo = None THEN [base EXCEPT !.pc = "err"]
       ELSE [base EXCEPT !.xo = xo]

IsInt(v) == v.k = "int"

ImgStep(doc, s) ==
    IF s.i > Len(s.xo.d) THEN [s EXCEPT !.pc = "ok"]
    ELSE
    LET xv   == s.xo.d[s.i][2]
        E    == [s EXCEPT !.pc = "err"]
        next == [s EXCEPT !.i = s.i + 1]
        st   == IF xv.k = "ref" THEN GetObject(doc, xv.n) ELSE None
        sub  == DGet(st, "Subtype")
        w    == DGet(st, "Width")
        h    == DGet(st, "Height")
        cs   == DGet(st, "ColorSpace")
        bpc  == DGet(st, "BitsPerComponent")
        fl   == DGet(st, "Filter")
    IN IF xv.k # "ref" \/ st = None \/ st.k # "stream" THEN E
       ELSE IF sub = None \/ sub.k # "name" THEN E
       ELSE IF sub.s # "Image" THEN next
       ELSE IF ~IsInt(w) \/ ~IsInt(h) THEN E
       ELSE IF cs.k = "arr" /\ Len(cs.e) = 0                                  \* array[0].as_name()?
            THEN IF Dev_CsIndex THEN [s EXCEPT !.pc = "panic", !.cls = "images.colorspace.empty"] ELSE E
       ELSE IF cs.k = "arr" /\ cs.e[1].k # "name" THEN E
       ELSE IF bpc # None /\ ~IsInt(bpc) THEN E
       ELSE IF fl.k = "arr" /\ (\E j \in 1..Len(fl.e) : fl.e[j].k # "name") THEN E
       ELSE [next EXCEPT !.n = s.n + 1]

RECURSIVE ImgRun(_, _)
ImgRun(doc, s) == IF s.pc \in Final THEN s ELSE ImgRun(doc, ImgStep(doc, s))

-----------------------------------------------------------------------------
(* Long acyclic chains.  ChainDoc(fam, L): objects 1 catalog, 2 page-tree root, 3 the page, 4 the  *)
(* content stream, 5 the outline dictionary, 6 a resources dictionary, 7 a font, 8 (refchain) the  *)
(* target, 9 unused; the chain is objects 10 .. 9+L.  Acyclic, nothing dangles, every value has    *)
(* the expected kind.  (The harness builds the same families for L up to 100 000.)                 *)

ChainHead == 10
ChainFams == {"parent", "first", "next", "kids", "kidswide", "pagekids", "contents", "refchain"}

DB(pairs) == Dict(SelectSeq(pairs, LAMBDA p : p[2] # None))
DestFit   == Arr(<<Ref(3), Name("Fit")>>)
NamePair  == Arr(<<Str("t"), Dict(<<<<"D", DestFit>>>>)>>)

ChainDoc(fam, L) ==
    LET last == ChainHead + L - 1
        nxt(i) == IF i < last THEN Ref(i + 1) ELSE None
        fontres == Dict(<<<<"Font", Dict(<<<<"F1", Ref(7)>>>>)>>>>)
        node(i) ==
            CASE fam = "parent"   -> DB(<<<<"Type", Name("Pages")>>, <<"Resources", Ref(6)>>, <<"Parent", nxt(i)>>>>)
              [] fam = "first"    -> DB(<<<<"Title", Str("a")>>, <<"Dest", DestFit>>, <<"First", nxt(i)>>>>)
              [] fam = "next"     -> DB(<<<<"Title", Str("a")>>, <<"Dest", DestFit>>, <<"Next", nxt(i)>>>>)
              [] fam = "kids"     -> IF i < last THEN DB(<<<<"Kids", Arr(<<Ref(i + 1)>>)>>>>) ELSE DB(<<<<"Names", NamePair>>>>)
              [] fam = "kidswide" -> IF i = ChainHead THEN DB(<<<<"Kids", Arr([j \in 1..(L - 1) |-> Ref(ChainHead + j)])>>>>)
                                     ELSE DB(<<<<"Names", NamePair>>>>)
              [] fam = "pagekids" -> DB(<<<<"Type", Name("Pages")>>, <<"Count", IntV(1)>>,
                                          <<"Kids", IF i < last THEN Arr(<<Ref(i + 1), Ref(3)>>) ELSE Arr(<<Ref(3)>>)>>>>)
              [] fam = "refchain" -> IF i < last THEN Ref(i + 1) ELSE Ref(8)
              [] OTHER            -> Null
        cat  == DB(<<<<"Type", Name("Catalog")>>, <<"Pages", Ref(2)>>,
                     <<"Outlines", IF fam = "refchain" THEN Ref(ChainHead) ELSE Ref(5)>>,
                     <<"Names", IF fam \in {"kids", "kidswide"} THEN Dict(<<<<"Dests", Ref(ChainHead)>>>>) ELSE None>>,
                     <<"Dests", IF fam = "refchain" THEN Ref(ChainHead) ELSE None>>>>)
        root == DB(<<<<"Type", Name("Pages")>>, <<"Count", IntV(1)>>,
                     <<"Kids", Arr(<<IF fam = "pagekids" THEN Ref(ChainHead) ELSE Ref(3)>>)>>>>)
        page == DB(<<<<"Type", Name("Page")>>,
                     <<"Parent", IF fam \in {"parent", "refchain"} THEN Ref(ChainHead) ELSE Ref(2)>>,
                     <<"Contents", IF fam = "contents" THEN Arr([j \in 1..L |-> Ref(4)])
                                   ELSE IF fam = "refchain" THEN Ref(ChainHead) ELSE Ref(4)>>,
                     <<"Resources", IF fam = "refchain" THEN Ref(ChainHead) ELSE fontres>>>>)
        outl == DB(<<<<"Type", Name("Outlines")>>, <<"First", IF fam \in {"first", "next"} THEN Ref(ChainHead) ELSE None>>>>)
        font == Dict(<<<<"Type", Name("Font")>>, <<"Subtype", Name("Type1")>>, <<"Encoding", Name("WinAnsiEncoding")>>>>)
        tgt  == Dict(<<<<"Type", Name("Pages")>>, <<"Font", Dict(<<<<"F1", Ref(7)>>>>)>>, <<"Title", Str("a")>>,
                       <<"Dest", DestFit>>, <<"Names", NamePair>>>>)
    IN [objs |-> [i \in 1..last |->
                    CASE i = 1 -> cat [] i = 2 -> root [] i = 3 -> page [] i = 4 -> Stream(<<>>, "text")
                      [] i = 5 -> outl [] i = 6 -> fontres [] i = 7 -> font
                      [] i = 8 -> (IF fam = "refchain" THEN tgt ELSE Null) [] i = 9 -> Null
                      [] OTHER -> node(i)],
        root |-> Ref(1)]

\* The links of family fam a recursive walker w started on object id still has below it: the depth it reaches.
\* (id 0 = the document-level call; the page is object 3.)
ChainDepthOf(fam, L, w, id) ==
    LET below == IF id >= ChainHead THEN L - (id - ChainHead) ELSE L      \* chain objects from id on
    IN CASE fam = "parent" /\ w = "rsrc" /\ id = 3 -> L                  \* page: one call per chain node
         [] fam = "parent" /\ w = "rsrc" /\ id >= ChainHead -> below - 1 \* a chain node: its own call is depth 0
         [] fam = "first" /\ w \in {"outl", "toc"} -> L - 1              \* node 10+j runs at depth j
         [] fam = "kids" /\ w \in {"outl", "toc"} -> L - 1
         [] fam = "kids" /\ w = "nd" /\ id >= ChainHead -> below - 1
         [] fam = "pagekids" /\ w = "nd" /\ id >= ChainHead -> below     \* any dictionary may be handed in as a name tree:
         [] fam = "pagekids" /\ w = "nd" /\ id = 2 -> L + 1               \* the page-tree Kids are walked down to the page
         [] fam = "kidswide" /\ w \in {"nd", "outl", "toc"} -> IF L >= 2 THEN 1 ELSE 0   \* wide, not deep
         [] fam = "refchain" /\ w = "rsrc" -> IF L > DerefLimit THEN 0 ELSE 1   \* page -> (chain) -> object 8
         [] OTHER -> 0

\* Closed form of the walkers' outcome on ChainDoc(fam, L), for a machine stack of sf frames.
ChainOutcomeS(fam, L, w, id, sf) ==
    LET d    == ChainDepthOf(fam, L, w, id)
        OK   == [pc |-> "ok", cls |-> ""]
        ERR  == [pc |-> "err", cls |-> ""]
        Rec(dev, limit, cls) ==                 \* a recursion reaching depth d: callee depth k needs k <= limit and frame k+1 <= sf
            IF ~dev /\ d > limit THEN ERR
            ELSE IF d + 1 > sf THEN [pc |-> "overflow", cls |-> cls]
            ELSE OK
    IN CASE fam = "refchain" ->              \* get_dictionary(10) follows L references, dereference(10 0 R) L + 1
                IF w = "deref" THEN (IF L + 1 > DerefLimit THEN ERR ELSE OK)
                ELSE IF w \in {"rsrc", "outl", "toc"} THEN (IF L > DerefLimit THEN ERR ELSE OK)
                ELSE OK
         [] w = "rsrc" -> IF Dev_RsrcRecursion /\ d > sf THEN [pc |-> "overflow", cls |-> "resources.parent.depth"] ELSE OK
         [] w \in {"outl", "toc"} /\ fam = "first" -> IF FirstWalkIterative THEN OK
                                                       ELSE Rec(Dev_FirstDepth, OutlineDepthLimit, "outline.first.depth")
         [] w \in {"outl", "toc", "nd"} /\ fam \in {"kids", "kidswide", "pagekids"} -> Rec(Dev_KidsDepth, NameTreeDepthLimit, "nameddest.kids.depth")
         [] OTHER -> OK

ChainOutcome(fam, L, w, id) == ChainOutcomeS(fam, L, w, id, StackFrames)

\* sizes of the results on the page (object 3): resource ids collected, content streams listed
ChainRsrcN(fam, L) == IF fam = "parent" THEN L ELSE IF fam = "refchain" THEN 1 ELSE 0
ChainContN(fam, L) == IF fam = "contents" THEN L ELSE IF fam = "refchain" THEN 0 ELSE 1

\* the greatest depth the walker reaches on the chain (stack frames beyond the first / s.depth)
ChainMaxDepth(fam, L, w, id) ==
    LET d == ChainDepthOf(fam, L, w, id)
        cut(dev, limit) == IF ~dev /\ d > limit THEN limit ELSE IF d + 1 > StackFrames THEN StackFrames - 1 ELSE d
    IN CASE w = "rsrc" -> IF ~Dev_RsrcRecursion THEN 0 ELSE IF d > StackFrames THEN StackFrames ELSE d
         [] w \in {"outl", "toc"} /\ fam = "first" -> IF FirstWalkIterative THEN 0 ELSE cut(Dev_FirstDepth, OutlineDepthLimit)
         [] w \in {"outl", "toc", "nd"} /\ fam \in {"kids", "kidswide", "pagekids"} -> cut(Dev_KidsDepth, NameTreeDepthLimit)
         [] OTHER -> 0

-----------------------------------------------------------------------------
(* Sizes used by the termination variants *)

RECURSIVE SizeV(_)
SizeV(v) == 1 + FoldLeft(LAMBDA acc, x : acc + SizeV(x), 0, v.e) + FoldLeft(LAMBDA acc, p : acc + SizeV(p[2]), 0, v.d)

SizeDoc(doc) == FoldLeft(LAMBDA acc, v : acc + SizeV(v), 1, doc.objs)

\* Outcome of a finished walker as one string: "ok", "err", or "<bad>:<class>"
OutcomeStr(s) == IF s.pc \in {"ok", "err"} THEN s.pc ELSE s.pc \o ":" \o s.cls
=============================================================================
