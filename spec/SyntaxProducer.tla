--------------------------- MODULE SyntaxProducer ---------------------------
(***************************************************************************)
(* Producer: a nondeterministic reference PDF writer as a state machine.    *)
(* Every lexical and structural freedom of ISO 32000-1 7.2-7.5 is a         *)
(* separately enabled, separately counted action (or a choice inside one):  *)
(* separators and comments between any two tokens, spellings of names,      *)
(* strings and numbers, dictionary key order, object order, cross-reference *)
(* table sectioning and entry line ends, cross-reference streams with       *)
(* several W/Index layouts, direct or indirect stream Length, stream        *)
(* keyword line ends, bytes before the header, trailing line ends, free     *)
(* entries (objects deleted by an update, the free list linked or not) and  *)
(* hybrid-reference sections (table + XRefStm stream for hidden objects).   *)
(*                                                                          *)
(* The Producer emits bytes into `out` by consuming a work stack `todo`.     *)
(* MC_Syntax checks that whatever it emits is read back by the StrictReader *)
(* as the value it started from (the spec's own consistency proof), and the *)
(* emitted files are what lopdf is asked to load (C02, C07).                *)
(***************************************************************************)
EXTENDS Spellings, FileStructure


CONSTANT SepMode    \* "all" | "few" | "min": which separators the Producer may choose from

Seps == SepsOf(SepMode)
NonEmptySeps == Seps \ {<<>>}

\* the small lexical choice sets of the file-level actions, named so that an exhaustive configuration can pin them
\* (MC_FileBeyond replaces each by a singleton)
DictOrders == BOOLEAN                                   \* keys in ascending or descending order
StreamKwEOLs == {<<10>>, <<13, 10>>}                    \* after the keyword stream (7.3.8.1)
StreamEndEOLs == EOLs \cup {<<>>}                       \* before the keyword endstream
EntryEOLs == {<<32, 10>>, <<32, 13>>, <<13, 10>>}       \* the last two bytes of a 20-byte cross-reference entry
MemberHdrSeps == {<<32>>, <<10>>, <<13, 10>>, <<0>>, <<9>>, <<12>>, <<13>>}   \* after each "number offset" pair of an object stream (any white-space of Table 1)
MemberMidSeps == {<<32>>, <<0>>, <<9>>, <<12>>, <<32, 32>>}                   \* between the number and the offset
ObjStmTails == {<<>>, <<10>>}                           \* after the last member of an object stream
FinalEOLs == EOLs \cup {<<>>}                           \* after %%EOF

VARIABLES out,      \* bytes emitted so far
          todo,     \* work stack (sequence, head first)
          offs,     \* objects written in the current revision: number -> [off, gen] (offset of "n g obj" relative to %PDF-)
          plan,     \* the file being produced: [doc, k (knobs), ri (revision), xrefoff, prevxref, cuts, stmoff]
          outer,    \* while an object-stream body is being produced: the file bytes emitted before it
          moffs     \* ... and the offsets of its members so far, <<[num, off]>>

pvars == <<out, todo, offs, plan, outer, moffs>>

Tok(b)  == [w |-> "tok", b |-> b, ns |-> FALSE]
TokN(b, ns) == [w |-> "tok", b |-> b, ns |-> ns]      \* ns: no separator may precede this token
Raw(b)  == [w |-> "raw", b |-> b]
Val(v)  == [w |-> "val", v |-> v, ns |-> FALSE]
ValN(v) == [w |-> "val", v |-> v, ns |-> TRUE]
Top1    == todo[1]
Rest    == Tail(todo)

AsciiDigits(n) == DigitBytes(NatDigits(n))

-----------------------------------------------------------------------------
(* Object level *)

EmitTok ==
    /\ todo # <<>> /\ Top1.w = "tok"
    /\ \E sep \in Seps :
          /\ (NeedSep(out, Top1.b) => sep # <<>>)
          /\ (Top1.ns => sep = <<>>)
          /\ out' = out \o sep \o Top1.b
    /\ todo' = Rest /\ UNCHANGED <<offs, plan, outer, moffs>>

EmitRaw ==
    /\ todo # <<>> /\ Top1.w = "raw"
    /\ out' = out \o Top1.b
    /\ todo' = Rest /\ UNCHANGED <<offs, plan, outer, moffs>>

IsVal(kind) == todo # <<>> /\ Top1.w = "val" /\ Top1.v.k = kind

XNull == IsVal("null") /\ todo' = <<TokN(KwNull, Top1.ns)>> \o Rest /\ UNCHANGED <<out, offs, plan, outer, moffs>>
XBool == IsVal("bool") /\ todo' = <<TokN(IF Top1.v.v THEN KwTrue ELSE KwFalse, Top1.ns)>> \o Rest /\ UNCHANGED <<out, offs, plan, outer, moffs>>
XInt  == IsVal("int")  /\ \E st \in IntStyles : todo' = <<TokN(IntSpell(Top1.v, st), Top1.ns)>> \o Rest
                       /\ UNCHANGED <<out, offs, plan, outer, moffs>>
XReal == IsVal("real") /\ \E st \in RealStyles : todo' = <<TokN(RealSpell(Top1.v, st), Top1.ns)>> \o Rest
                       /\ UNCHANGED <<out, offs, plan, outer, moffs>>
XName == IsVal("name") /\ \E st \in NameStyles : todo' = <<TokN(NameSpell(Top1.v.v, st), Top1.ns)>> \o Rest
                       /\ UNCHANGED <<out, offs, plan, outer, moffs>>
XLit  == IsVal("str")  /\ \E st \in LitStyles : LitStyleOk(Top1.v.v, st) /\ todo' = <<TokN(LitSpell(Top1.v.v, st), Top1.ns)>> \o Rest
                       /\ UNCHANGED <<out, offs, plan, outer, moffs>>
XHex  == IsVal("str")  /\ \E st \in HexStyles : todo' = <<TokN(HexSpell(Top1.v.v, st), Top1.ns)>> \o Rest
                       /\ UNCHANGED <<out, offs, plan, outer, moffs>>
XRef  == IsVal("ref")  /\ todo' = <<TokN(AsciiDigits(Top1.v.v), Top1.ns), Tok(AsciiDigits(Top1.v.w)), Tok(KwR)>> \o Rest
                       /\ UNCHANGED <<out, offs, plan, outer, moffs>>
XArr  == IsVal("arr")  /\ todo' = <<TokN(<<91>>, Top1.ns)>> \o [i \in 1..Len(Top1.v.v) |-> Val(Top1.v.v[i])] \o <<Tok(<<93>>)>> \o Rest
                       /\ UNCHANGED <<out, offs, plan, outer, moffs>>

DictItems(d, keys) == Concat([i \in 1..Len(keys) |-> <<Val(OName(keys[i])), Val(d[keys[i]])>>])

XDict == IsVal("dict") /\ \E rev \in DictOrders :
                            LET keys == IF rev THEN Reverse(SetToSeq(DOMAIN Top1.v.v)) ELSE SetToSeq(DOMAIN Top1.v.v)
                            IN todo' = <<TokN(<<60, 60>>, Top1.ns)>> \o DictItems(Top1.v.v, keys) \o <<Tok(<<62, 62>>)>> \o Rest
                       /\ UNCHANGED <<out, offs, plan, outer, moffs>>

ObjectNext == EmitTok \/ EmitRaw \/ XNull \/ XBool \/ XInt \/ XReal \/ XName \/ XLit \/ XHex \/ XRef \/ XArr \/ XDict

-----------------------------------------------------------------------------
(* File level.                                                                                  *)
(* plan.doc = [version, binmark, revs |-> << [objs |-> <<[num, gen, val]>>,                      *)
(*                                             comp |-> <<[cnum, members |-> <<[num, val]>>]>>, *)
(*                                             trailer |-> map] >>]                              *)
(* Revision 1 is the original file, every further revision an incremental update (7.5.6).        *)
(* comp lists object streams: their members are written inside an ObjStm when the file uses      *)
(* cross-reference streams, and as ordinary objects when it uses cross-reference tables.         *)
(* plan.k = knobs [order, xref \in {"table1","tableN","stream1","streamN"}, w, junk, junkbytes,  *)
(*                 bin, slack, noindex, ...]                                                     *)
(* A revision may carry  free |-> <<[num, gen]>>  (Revisions): its cross-reference section marks  *)
(* these numbers free - `f` entries of a table, type-0 rows of a stream.  Knob flink: "zero" =    *)
(* only the numbers the revision frees are listed, every link field is 0; "chain" = the section   *)
(* lists object 0 and every number that is free after it as the linked list of 7.5.4 (ascending,  *)
(* the last entry links back to 0).                                                               *)
(* Knob hybrid = the set of revisions laid out as hybrid-reference sections (7.5.8.4; table       *)
(* styles only): their comp members are written into real object streams, a cross-reference        *)
(* stream in the body lists them (type 2), the trailer of the table names it with XRefStm.         *)
(* hycont / hyself \in {"stm", "intable"}: whether the object streams / the cross-reference stream   *)
(* itself are listed (type 1) in that stream - hidden from a reader of tables - or in the table;   *)
(* hymark \in {"free", "unlisted"}: whether the table carries `f` entries for the hidden numbers.    *)

Doc == plan.doc
K == plan.k
Cur == Doc.revs[plan.ri]
UseComp(k) == k.xref \in {"stream1", "streamN"}
\* knob values of a file without free-list chaining and without hybrid-reference sections
PlainKnobs == [hybrid |-> {}, hycont |-> "stm", hyself |-> "stm", hymark |-> "free", flink |-> "zero", sfx |-> "", hexstyle |-> "upper", rlseg |-> 3]
HybHere == plan.ri \in K.hybrid                       \* the current revision is a hybrid-reference section
CompHere == UseComp(K) \/ HybHere                     \* ... its comp members live in object streams

\* every object number mentioned anywhere in the document (fresh numbers are taken above it)
AllNums(doc) ==
    UNION {{doc.revs[r].objs[i].num : i \in 1..Len(doc.revs[r].objs)}
           \cup UNION {{doc.revs[r].comp[c].cnum} \cup {doc.revs[r].comp[c].members[m].num : m \in 1..Len(doc.revs[r].comp[c].members)}
                       : c \in 1..Len(doc.revs[r].comp)}
           : r \in 1..Len(doc.revs)}
MaxAll(doc) == LET S == AllNums(doc) IN IF S = {} THEN 0 ELSE CHOOSE n \in S : \A m \in S : m <= n
\* number of revision r's XRef stream object: a fresh number above everything, or (knob selfgap, first
\* revision only) an unused number BELOW the highest object number - a file whose XRef stream is not its
\* highest-numbered object
FreeBelow(doc) == {n \in 1..MaxAll(doc) : n \notin AllNums(doc)}
SelfNumK(doc, k, r) ==
    IF r = 1 /\ k.selfgap /\ FreeBelow(doc) # {}
    THEN CHOOSE n \in FreeBelow(doc) : \A m \in FreeBelow(doc) : m <= n
    ELSE MaxAll(doc) + r
SelfNum(doc, r) == SelfNumK(doc, plan.k, r)

\* the stream dictionary as written: Length added unless the document already carries one
StreamDictWritten(o, lenref) ==
    IF Has(o.val.v, NameLength) THEN o.val.v     \* e.g. a reference to an integer object of the document
    ELSE MapPut(o.val.v, NameLength, NatObj(Len(o.val.w)))

ObjItems(o, lenref) ==
    <<[w |-> "objhdr", num |-> o.num, gen |-> o.gen, nosep |-> FALSE]>> \o
    (IF o.val.k = "stream"
     THEN <<Val(ODict(StreamDictWritten(o, lenref))), [w |-> "streamdata", c |-> o.val.w]>>
     ELSE <<Val(o.val)>>) \o
    <<Tok(KwEndobj)>>

\* "n g obj": the offset recorded is that of the first digit of n
ObjHdr ==
    /\ todo # <<>> /\ Top1.w = "objhdr"
    /\ \E sep \in Seps :
          /\ (NeedSep(out, <<48>>) => sep # <<>>)
          /\ (Top1.nosep => sep = <<>>)
          /\ out' = out \o sep \o AsciiDigits(Top1.num)
          /\ offs' = [n \in DOMAIN offs \cup {Top1.num} |->
                        IF n = Top1.num THEN [off |-> Len(out \o sep) - K.junk, gen |-> Top1.gen] ELSE offs[n]]
    /\ todo' = <<Tok(AsciiDigits(Top1.gen)), Tok(KwObj)>> \o Rest
    /\ UNCHANGED <<plan, outer, moffs>>

\* "stream" EOL data [EOL] "endstream"   (7.3.8.1: CRLF or LF after the keyword)
StreamData ==
    /\ todo # <<>> /\ Top1.w = "streamdata"
    /\ \E sep \in Seps, e1 \in StreamKwEOLs, e2 \in StreamEndEOLs :
          /\ (NeedSep(out, KwStream) => sep # <<>>)
          /\ out' = out \o sep \o KwStream \o e1 \o Top1.c \o e2 \o KwEndstream
    /\ todo' = Rest /\ UNCHANGED <<offs, plan, outer, moffs>>

Header ==
    /\ todo # <<>> /\ Top1.w = "header"
    /\ \E e \in EOLs, e2 \in EOLs :
          out' = out \o PctPDF \o Doc.version \o e \o
                 (IF K.bin THEN <<37>> \o Doc.binmark \o e2 ELSE <<>>)
    /\ todo' = Rest /\ UNCHANGED <<offs, plan, outer, moffs>>

\* a new revision begins: nothing written in it yet
RevStart ==
    /\ todo # <<>> /\ Top1.w = "revstart"
    /\ offs' = EmptyMap
    /\ plan' = [plan EXCEPT !.ri = Top1.r]
    /\ todo' = Rest /\ UNCHANGED <<out, outer, moffs>>

\* Optional filter on structural streams (knob K.sfilter): "none" | "flate" (zlib, stored blocks) |
\* "pred" (PNG predictor rows, then zlib) | "other": K.sfx names one of the further legal forms -
\*   "ahx" ASCIIHexDecode (digit style K.hexstyle), "a85" ASCII85Decode, "rl" RunLengthDecode (pieces of K.rlseg bytes),
\*   "lzw" LZWDecode, "lzw0" LZWDecode with /EarlyChange 0, "flarr" [/FlateDecode] as a one-element array,
\*   "ahxfl" [/ASCIIHexDecode /FlateDecode], "a85pred" [/ASCII85Decode /FlateDecode] with /DecodeParms [null <<PNG>>],
\*   "lzwpred" LZWDecode with a PNG predictor, "tiff" / "tiff2" FlateDecode with /Predictor 2 (Colors 1 / 2),
\*   "sub1" "sub2" "sub4" "sub16" FlateDecode with a PNG predictor whose rows are described with 1, 2, 4 or 16 bits
\*   per component (same bytes per row; the left neighbour is one pixel, but at least one byte, away).
\* Returns [data, dict additions].
OtherFilters == {"ahx", "a85", "rl", "lzw", "lzw0", "flarr", "ahxfl", "a85pred", "lzwpred", "tiff", "tiff2", "sub1", "sub2", "sub4", "sub16"}
FilterStruct(data, rowlen, d) ==
    IF K.sfilter = "none" \/ rowlen = 0 THEN [data |-> data, d |-> d]
    ELSE IF K.sfilter = "flate" THEN
        [data |-> Cod!ZStored(data, K.zblock), d |-> MapPut(d, NameFilter, OName(NameFlateDecode))]
    ELSE LET nrows == (Len(data) + rowlen - 1) \div rowlen
             padded == data \o [i \in 1..(nrows * rowlen - Len(data)) |-> 32]
             \* 5, 6: filter type chosen per row (the predictor number is only a hint): every type follows every other,
             \* in particular None is directly followed by Up, Average and Paeth rows
             mixA == <<2, 3, 4, 0, 1>>
             mixB == <<0, 2, 0, 3, 0, 4, 1, 0>>
             fts == [r \in 1..nrows |-> IF K.pngft = 5 THEN mixA[((r - 1) % 5) + 1]
                                        ELSE IF K.pngft = 6 THEN mixB[((r - 1) % 8) + 1] ELSE K.pngft]
             predNo == NatObj(10 + (IF K.pngft >= 5 THEN 5 ELSE K.pngft))
             pngParms(extra) == ODict((NamePredictor :> predNo) @@ extra)
             put(flt, parms) == IF parms = ONull THEN MapPut(d, NameFilter, flt) ELSE MapPut(MapPut(d, NameFilter, flt), NameDecodeParms, parms)
             N(nm) == OName(nm)
             x == IF K.sfilter = "pred" THEN "pred" ELSE K.sfx
         IN CASE x = "pred" ->
                  [data |-> Cod!ZStored(Cod!PngEncode(padded, 1, rowlen, fts), K.zblock),
                   d |-> put(N(NameFlateDecode), pngParms(NameColumns :> NatObj(rowlen)))]
              [] x = "ahx" -> [data |-> CodX!AHxEncode(data, K.hexstyle), d |-> put(N(NameASCIIHexDecode), ONull)]
              [] x = "a85" -> [data |-> Cod!A85Encode(data, K.hexstyle # "lower"), d |-> put(N(NameASCII85Decode), ONull)]
              [] x = "rl" -> [data |-> CodX!RLEncode(data, K.rlseg, K.hexstyle # "noeod"), d |-> put(N(NameRunLengthDecode), ONull)]
              [] x = "lzw" -> [data |-> Cod!LzwEncode(data, 1, 4094), d |-> put(N(NameLZWDecode), ONull)]
              [] x = "lzw0" -> [data |-> Cod!LzwEncode(data, 0, 300), d |-> put(N(NameLZWDecode), ODict(NameEarlyChange :> NatObj(0)))]
              [] x = "flarr" -> [data |-> Cod!ZStored(data, K.zblock), d |-> put(OArr(<<N(NameFlateDecode)>>), ONull)]
              [] x = "ahxfl" -> [data |-> CodX!AHxEncode(Cod!ZStored(data, K.zblock), K.hexstyle),
                                 d |-> put(OArr(<<N(NameASCIIHexDecode), N(NameFlateDecode)>>), ONull)]
              [] x = "a85pred" -> [data |-> Cod!A85Encode(Cod!ZStored(Cod!PngEncode(padded, 1, rowlen, fts), K.zblock), TRUE),
                                   d |-> put(OArr(<<N(NameASCII85Decode), N(NameFlateDecode)>>),
                                             OArr(<<ONull, pngParms(NameColumns :> NatObj(rowlen))>>))]
              [] x = "lzwpred" -> [data |-> Cod!LzwEncode(Cod!PngEncode(padded, 1, rowlen, fts), 1, 4094),
                                   d |-> put(N(NameLZWDecode), pngParms(NameColumns :> NatObj(rowlen)))]
              [] x = "tiff" -> [data |-> Cod!ZStored(CodX!TiffEncode(data, 1, rowlen), K.zblock),
                                d |-> put(N(NameFlateDecode), ODict((NamePredictor :> NatObj(2)) @@ (NameColumns :> NatObj(rowlen))))]
              [] x = "tiff2" /\ rowlen % 2 = 0 ->
                    [data |-> Cod!ZStored(CodX!TiffEncode(data, 2, rowlen), K.zblock),
                     d |-> put(N(NameFlateDecode), ODict((NamePredictor :> NatObj(2)) @@ (NameColumns :> NatObj(rowlen \div 2)) @@ (NameColors :> NatObj(2))))]
              [] x \in {"sub1", "sub2", "sub4"} ->
                    LET bpc == IF x = "sub1" THEN 1 ELSE IF x = "sub2" THEN 2 ELSE 4
                    IN [data |-> Cod!ZStored(Cod!PngEncode(padded, 1, rowlen, fts), K.zblock),
                        d |-> put(N(NameFlateDecode), pngParms((NameColumns :> NatObj(rowlen * (8 \div bpc))) @@ (NameBitsPerComponent :> NatObj(bpc))))]
              [] x = "sub16" /\ rowlen % 2 = 0 ->
                    [data |-> Cod!ZStored(Cod!PngEncode(padded, 2, rowlen, fts), K.zblock),
                     d |-> put(N(NameFlateDecode), pngParms((NameColumns :> NatObj(rowlen \div 2)) @@ (NameBitsPerComponent :> NatObj(16))))]
              \* forms that do not fit the row length fall back to plain FlateDecode
              [] OTHER -> [data |-> Cod!ZStored(data, K.zblock), d |-> MapPut(d, NameFilter, OName(NameFlateDecode))]

-----------------------------------------------------------------------------
(* Object streams (7.5.7): the members are spelled by the Producer itself into a separate buffer *)

CStart ==
    /\ todo # <<>> /\ Top1.w = "cstart"
    /\ outer' = out /\ out' = <<>> /\ moffs' = <<>>
    /\ todo' = Rest /\ UNCHANGED <<offs, plan>>

CMember ==
    /\ todo # <<>> /\ Top1.w = "cmember"
    /\ \E sep \in Seps :
          /\ (out # <<>> => sep # <<>>)               \* members are separated by white-space
          /\ out' = out \o sep
          /\ moffs' = Append(moffs, [num |-> Top1.num, off |-> Len(out \o sep)])
    /\ todo' = <<ValN(Top1.v)>> \o Rest /\ UNCHANGED <<offs, plan, outer>>

\* K.ghost # 0 (used by the C08 file set only): every object stream additionally holds a member with
\* that number which no cross-reference entry names.  Such an object is not part of the document the file
\* defines (the StrictReader ignores it); a loader that nevertheless keeps it must do so independently of
\* the order in which the containers are processed.
CEnd ==
    /\ todo # <<>> /\ Top1.w = "cend"
    /\ \E hs \in MemberHdrSeps, ms \in MemberMidSeps, tail \in ObjStmTails :
          LET header0 == Concat([i \in 1..Len(moffs) |-> AsciiDigits(moffs[i].num) \o ms \o AsciiDigits(moffs[i].off) \o hs])
              \* First behind a reference: the document holds an integer object with the value fval; the header is
              \* padded with white-space up to it (if it is longer already, First is written directly)
              fIndirect == Top1.fref # 0 /\ Len(header0) <= Top1.fval /\ Len(moffs) > 0
              header == IF fIndirect THEN header0 \o [i \in 1..(Top1.fval - Len(header0)) |-> 32] ELSE header0
              content == header \o out \o tail
              d == (NameType :> OName(NameObjStm))
                   @@ (NameN :> (IF Top1.nref # 0 /\ K.ghost = 0 THEN ORef(Top1.nref, 0) ELSE NatObj(Len(moffs))))
                   @@ (NameFirst :> (IF fIndirect THEN ORef(Top1.fref, 0) ELSE NatObj(Len(header))))
              fl == FilterStruct(content, K.crow, d)
          IN todo' = ObjItems([num |-> Top1.cnum, gen |-> 0, val |-> OStream(fl.d, fl.data)], 0) \o Rest
    /\ out' = outer /\ outer' = <<>> /\ moffs' = <<>>
    /\ UNCHANGED <<offs, plan>>

-----------------------------------------------------------------------------
(* Cross-reference sections *)

\* one 20-byte cross-reference entry
Pad(d, n) == [i \in 1..(n - Len(d)) |-> 48] \o DigitBytes(d)
Entry(off, gen, inuse, eeol) ==
    Pad(NatDigits(off), 10) \o <<32>> \o Pad(NatDigits(gen), 5) \o <<32>> \o (IF inuse THEN KwN ELSE KwF) \o eeol

Nums == DOMAIN offs                                  \* objects written in this revision
MaxNum == IF Nums = {} THEN 0 ELSE CHOOSE n \in Nums : \A m \in Nums : m <= n

\* maximal runs of consecutive numbers in a set, as a sequence of <<first, count>>
Runs(S) ==
    LET starts == {n \in S : n - 1 \notin S}
        seqStarts == SortSeq(SetToSeq(starts), LAMBDA a, b : a < b)
        runLen(a) == CHOOSE k \in 1..Cardinality(S) : (\A j \in 0..(k - 1) : a + j \in S) /\ (a + k \notin S)
    IN [i \in 1..Len(seqStarts) |-> <<seqStarts[i], runLen(seqStarts[i])>>]

First == plan.ri = 1

\* free entries of a revision (optional field, see Revisions)
FreeOf(rev) == IF "free" \in DOMAIN rev THEN rev.free ELSE <<>>
FreeNumsOf(rev) == {FreeOf(rev)[i].num : i \in 1..Len(FreeOf(rev))}
DefNumsOf(rev) ==
    {rev.objs[i].num : i \in 1..Len(rev.objs)}
    \cup UNION {{rev.comp[c].members[m].num : m \in 1..Len(rev.comp[c].members)} : c \in 1..Len(rev.comp)}
\* numbers that are free after revision r -> the generation their newest free entry records
FreeAfter(doc, r) ==
    LET cand == UNION {FreeNumsOf(doc.revs[q]) : q \in 1..r}
        lastq(n) == CHOOSE q \in 1..r : n \in FreeNumsOf(doc.revs[q]) /\ \A p \in (q + 1)..r : n \notin FreeNumsOf(doc.revs[p])
        still == {n \in cand : \A p \in (lastq(n) + 1)..r : n \notin DefNumsOf(doc.revs[p])}
    IN [n \in still |-> LET f == FreeOf(doc.revs[lastq(n)]) IN f[CHOOSE i \in 1..Len(f) : f[i].num = n].gen]
\* what the section of the current revision lists as free besides gaps and hidden objects: num -> [next, gen]
FreeListed ==
    IF First \/ \A q \in 1..plan.ri : FreeOf(Doc.revs[q]) = <<>> THEN EmptyMap
    ELSE IF K.flink = "zero"
    THEN [n \in FreeNumsOf(Cur) |-> [next |-> 0, gen |-> FreeAfter(Doc, plan.ri)[n]]]
    ELSE LET fa == FreeAfter(Doc, plan.ri)
             sq == <<0>> \o SortSeq(SetToSeq(DOMAIN fa), LAMBDA a, b : a < b)
         IN [n \in DOMAIN fa \cup {0} |->
                LET i == CHOOSE j \in 1..Len(sq) : sq[j] = n
                IN [next |-> IF i = Len(sq) THEN 0 ELSE sq[i + 1], gen |-> IF n = 0 THEN 65535 ELSE fa[n]]]

\* hybrid-reference section: directly stored objects that only the XRefStm stream lists, all hidden numbers
HiddenPlain ==
    IF ~HybHere THEN {}
    ELSE (IF K.hycont = "stm" THEN {Cur.comp[c].cnum : c \in 1..Len(Cur.comp)} ELSE {})
         \cup (IF K.hyself = "stm" THEN {SelfNum(Doc, plan.ri)} ELSE {})
HiddenNums ==
    IF ~HybHere THEN {}
    ELSE HiddenPlain \cup UNION {{Cur.comp[c].members[m].num : m \in 1..Len(Cur.comp[c].members)} : c \in 1..Len(Cur.comp)}

XrefTable ==
    /\ todo # <<>> /\ Top1.w = "xreftable"
    /\ \E e0 \in EOLs, e1 \in EOLs, ee \in EntryEOLs :
          \E fl \in {FreeListed}, tab \in {Nums \ HiddenPlain}, marked \in {IF HybHere /\ K.hymark = "free" THEN HiddenNums ELSE {}} :
          LET entry(n) == IF n \in tab THEN Entry(offs[n].off, offs[n].gen, TRUE, ee)
                          ELSE IF n \in DOMAIN fl THEN Entry(fl[n].next, fl[n].gen, FALSE, ee)
                          ELSE Entry(0, IF n = 0 \/ n \in marked THEN 65535 ELSE 0, FALSE, ee)
              maxtab == IF tab \cup marked = {} THEN 0 ELSE CHOOSE n \in tab \cup marked : \A m \in tab \cup marked : m <= n
              one == AsciiDigits(0) \o <<32>> \o AsciiDigits(maxtab + 1) \o e1 \o
                     Concat([n \in 1..(maxtab + 1) |-> entry(n - 1)])
              listed == (IF First THEN tab \cup {0} ELSE tab) \cup DOMAIN fl \cup marked
              runs == Runs(IF listed = {} THEN {0} ELSE listed)
              many == Concat([r \in 1..Len(runs) |->
                         AsciiDigits(runs[r][1]) \o <<32>> \o AsciiDigits(runs[r][2]) \o e1 \o
                         Concat([j \in 1..runs[r][2] |-> entry(runs[r][1] + j - 1)])])
          IN out' = out \o KwXref \o e0 \o (IF K.xref = "table1" /\ First THEN one ELSE many)
    /\ todo' = Rest /\ UNCHANGED <<offs, plan, outer, moffs>>

\* remember where the upcoming cross-reference section starts (the separator is emitted here)
XrefStart ==
    /\ todo # <<>> /\ Top1.w = "markxref"
    /\ \E sep \in NonEmptySeps :
          /\ out' = out \o sep
          /\ plan' = [plan EXCEPT !.xrefoff = Len(out \o sep) - K.junk]
    /\ todo' = Rest /\ UNCHANGED <<offs, outer, moffs>>

\* ... and where the cross-reference stream of a hybrid-reference section starts (the trailer's XRefStm)
StmStart ==
    /\ todo # <<>> /\ Top1.w = "markstm"
    /\ \E sep \in NonEmptySeps :
          /\ out' = out \o sep
          /\ plan' = [plan EXCEPT !.stmoff = Len(out \o sep) - K.junk]
    /\ todo' = Rest /\ UNCHANGED <<offs, outer, moffs>>

SizeVal == MaxAll(Doc) + Len(Doc.revs) + 1 + K.slack

TrailerOf(r) ==
    LET t0 == MapPut(Doc.revs[r].trailer, NameSize, NatObj(SizeVal))
        t1 == IF r = 1 THEN t0 ELSE MapPut(t0, NamePrev, NatObj(plan.prevxref))
    IN IF r \in K.hybrid THEN MapPut(t1, NameXRefStm, NatObj(plan.stmoff)) ELSE t1

TrailerItems ==
    /\ todo # <<>> /\ Top1.w = "trailer"
    /\ todo' = <<Tok(KwTrailer), Val(ODict(TrailerOf(plan.ri)))>> \o Rest
    /\ UNCHANGED <<out, offs, plan, outer, moffs>>

StartXref ==
    /\ todo # <<>> /\ Top1.w = "startxref"
    /\ \E sep \in NonEmptySeps, e1 \in EOLs, e2 \in EOLs, fin \in FinalEOLs :
          \* %%EOF is a comment: an update appended after it must start on a new line
          /\ (plan.ri < Len(Doc.revs) => fin # <<>>)
          /\ out' = out \o sep \o KwStartxref \o e1 \o AsciiDigits(plan.xrefoff) \o e2 \o PctPctEOF \o fin
          /\ plan' = [plan EXCEPT !.prevxref = plan.xrefoff, !.cuts = Append(@, Len(out'))]
    /\ todo' = Rest /\ UNCHANGED <<offs, outer, moffs>>

\* big-endian field of width n
BE(x, n) == [i \in 1..n |-> IF n - i >= 4 THEN 0 ELSE (x \div (256 ^ (n - i))) % 256]   \* x < 2^31

\* members of the object streams of the current revision: <<[num, cnum, idx]>>
CompEntries ==
    IF ~CompHere THEN <<>>
    ELSE Concat([c \in 1..Len(Cur.comp) |->
            [m \in 1..Len(Cur.comp[c].members) |-> [num |-> Cur.comp[c].members[m].num, cnum |-> Cur.comp[c].cnum, idx |-> m - 1]]])

\* the XRef stream object (7.5.8): objects of this revision, compressed members, itself; rows per K.w
XrefStreamObj ==
    /\ todo # <<>> /\ Top1.w = "xrefstream"
    /\ \E fl \in {FreeListed} :
       LET self == SelfNum(Doc, plan.ri)
           w == K.w
           ce == CompEntries
           cnums == {ce[i].num : i \in 1..Len(ce)}
           all == Nums \cup {self} \cup cnums \cup (IF w[1] = 0 \/ ~First THEN {} ELSE {0}) \cup DOMAIN fl
           row(n) == IF n \in DOMAIN fl THEN BE(0, w[1]) \o BE(fl[n].next, w[2]) \o BE(IF n = 0 /\ w[3] < 2 THEN 0 ELSE fl[n].gen, w[3])
                     ELSE IF n = 0 THEN BE(0, w[1]) \o BE(0, w[2]) \o BE(IF w[3] >= 2 THEN 65535 ELSE 0, w[3])
                     ELSE IF n = self THEN BE(1, w[1]) \o BE(plan.xrefoff, w[2]) \o BE(0, w[3])
                     ELSE IF n \in cnums
                          THEN LET e == ce[SelectInSeq(ce, LAMBDA x : x.num = n)] IN BE(2, w[1]) \o BE(e.cnum, w[2]) \o BE(e.idx, w[3])
                     ELSE BE(1, w[1]) \o BE(offs[n].off, w[2]) \o BE(offs[n].gen, w[3])
           runs == IF K.xref = "stream1" /\ w[1] # 0 /\ First
                   THEN <<<<0, (CHOOSE n \in all : \A m \in all : m <= n) + 1>>>>    \* one range, gaps as free entries
                   ELSE Runs(all)
           rowOrFree(n) == IF n \in all THEN row(n) ELSE BE(0, w[1]) \o BE(0, w[2]) \o BE(0, w[3])
           data == Concat([r \in 1..Len(runs) |-> Concat([j \in 1..runs[r][2] |-> rowOrFree(runs[r][1] + j - 1)])])
           index == OArr(Concat([r \in 1..Len(runs) |-> <<NatObj(runs[r][1]), NatObj(runs[r][2])>>]))
           d0 == MapPut(MapPut(TrailerOf(plan.ri), NameType, OName(NameXRef)),
                        NameW, OArr(<<NatObj(w[1]), NatObj(w[2]), NatObj(w[3])>>))
           d1 == IF runs = <<<<0, SizeVal>>>> /\ K.noindex THEN d0 ELSE MapPut(d0, NameIndex, index)
           fl2 == FilterStruct(data, w[1] + w[2] + w[3], d1)
           items == ObjItems([num |-> self, gen |-> 0, val |-> OStream(fl2.d, fl2.data)], 0)
       IN todo' = <<[items[1] EXCEPT !.nosep = TRUE]>> \o Tail(items) \o Rest
    /\ UNCHANGED <<out, offs, plan, outer, moffs>>

\* the cross-reference stream of a hybrid-reference section (7.5.8.4): type-2 rows for the members of this
\* revision's object streams, type-1 rows for the directly stored objects that are hidden from the table
XRefStmObj ==
    /\ todo # <<>> /\ Top1.w = "xrefstm"
    /\ LET self == SelfNum(Doc, plan.ri)
           w == K.w
           ce == CompEntries
           cnums == {ce[i].num : i \in 1..Len(ce)}
           all == HiddenPlain \cup cnums
           row(n) == IF n = self THEN BE(1, w[1]) \o BE(plan.stmoff, w[2]) \o BE(0, w[3])
                     ELSE IF n \in cnums
                          THEN LET e == ce[SelectInSeq(ce, LAMBDA x : x.num = n)] IN BE(2, w[1]) \o BE(e.cnum, w[2]) \o BE(e.idx, w[3])
                     ELSE BE(1, w[1]) \o BE(offs[n].off, w[2]) \o BE(offs[n].gen, w[3])
           runs == Runs(all)
           data == Concat([r \in 1..Len(runs) |-> Concat([j \in 1..runs[r][2] |-> row(runs[r][1] + j - 1)])])
           index == OArr(Concat([r \in 1..Len(runs) |-> <<NatObj(runs[r][1]), NatObj(runs[r][2])>>]))
           d1 == (NameType :> OName(NameXRef)) @@ (NameSize :> NatObj(SizeVal))
                 @@ (NameW :> OArr(<<NatObj(w[1]), NatObj(w[2]), NatObj(w[3])>>)) @@ (NameIndex :> index)
           fl2 == FilterStruct(data, w[1] + w[2] + w[3], d1)
           items == ObjItems([num |-> self, gen |-> 0, val |-> OStream(fl2.d, fl2.data)], 0)
       IN todo' = <<[items[1] EXCEPT !.nosep = TRUE]>> \o Tail(items) \o Rest
    /\ UNCHANGED <<out, offs, plan, outer, moffs>>

FileNext == ObjectNext \/ ObjHdr \/ StreamData \/ Header \/ RevStart \/ CStart \/ CMember \/ CEnd
            \/ XrefTable \/ XrefStart \/ TrailerItems \/ StartXref \/ XrefStreamObj \/ StmStart \/ XRefStmObj

\* the work items of revision r
RevItems(doc, k, r) ==
    LET rev == doc.revs[r]
        objs == IF k.order = "desc" THEN Reverse(rev.objs) ELSE rev.objs
        plainMembers == Concat([c \in 1..Len(rev.comp) |->
                          Concat([m \in 1..Len(rev.comp[c].members) |->
                             ObjItems([num |-> rev.comp[c].members[m].num, gen |-> 0, val |-> rev.comp[c].members[m].val], 0)])])
        containers == Concat([c \in 1..Len(rev.comp) |->
                          <<[w |-> "cstart"]>> \o
                          [m \in 1..Len(rev.comp[c].members) |-> [w |-> "cmember", num |-> rev.comp[c].members[m].num, v |-> rev.comp[c].members[m].val]] \o
                          (IF k.ghost # 0 THEN <<[w |-> "cmember", num |-> k.ghost, v |-> OArr(<<NatObj(rev.comp[c].cnum), NatObj(r)>>)]>> ELSE <<>>) \o
                          <<[w |-> "cend", cnum |-> rev.comp[c].cnum,
                             \* optional: N and First written as references to integer objects of the document
                             nref |-> IF "nref" \in DOMAIN rev.comp[c] THEN rev.comp[c].nref ELSE 0,
                             fref |-> IF "fref" \in DOMAIN rev.comp[c] THEN rev.comp[c].fref ELSE 0,
                             fval |-> IF "fval" \in DOMAIN rev.comp[c] THEN rev.comp[c].fval ELSE 0]>>])
    IN <<[w |-> "revstart", r |-> r]>> \o
       Concat([i \in 1..Len(objs) |-> ObjItems(objs[i], 0)]) \o
       (IF UseComp(k) \/ r \in k.hybrid THEN containers ELSE plainMembers) \o
       (IF r \in k.hybrid THEN <<[w |-> "markstm"], [w |-> "xrefstm"]>> ELSE <<>>) \o
       <<[w |-> "markxref"]>> \o
       (IF UseComp(k) THEN <<[w |-> "xrefstream"]>> ELSE <<[w |-> "xreftable"], [w |-> "trailer"]>>) \o
       <<[w |-> "startxref"]>>

\* the initial work stack of a whole file
FilePlan(doc, k) ==
    (IF k.junk > 0 THEN <<Raw(k.junkbytes)>> ELSE <<>>) \o
    <<[w |-> "header"]>> \o
    Concat([r \in 1..Len(doc.revs) |-> RevItems(doc, k, r)])

InitPlan(doc, k) == [doc |-> doc, k |-> k, ri |-> 1, xrefoff |-> 0, prevxref |-> 0, cuts |-> <<>>, stmoff |-> 0]
=============================================================================
