--------------------------- MODULE SyntaxProducer ---------------------------
(***************************************************************************)
(* Producer: a nondeterministic reference PDF writer as a state machine.    *)
(* Every lexical and structural freedom of ISO 32000-1 7.2-7.5 is a         *)
(* separately enabled, separately counted action (or a choice inside one):  *)
(* separators and comments between any two tokens, spellings of names,      *)
(* strings and numbers, dictionary key order, object order, cross-reference *)
(* table sectioning and entry line ends, cross-reference streams with       *)
(* several W/Index layouts, direct or indirect stream Length, stream        *)
(* keyword line ends, bytes before the header, trailing line ends.          *)
(*                                                                          *)
(* The Producer emits bytes into `out` by consuming a work stack `todo`.     *)
(* MC_Syntax checks that whatever it emits is read back by the StrictReader *)
(* as the value it started from (the spec's own consistency proof), and the *)
(* emitted files are what lopdf is asked to load (C02, C07).                *)
(***************************************************************************)
EXTENDS Spellings, FileStructure

CONSTANT SepMode    \* "all" | "few" | "min": which separators the Producer may choose from

Seps == SepsOf(SepMode)
NonEmptySeps == Seps \ {<<>>}

VARIABLES out,      \* bytes emitted so far
          todo,     \* work stack (sequence, head first)
          offs,     \* object number -> byte offset of its "n g obj" header (relative to %PDF-)
          plan      \* the file being produced: [doc, knobs] (constant during a behaviour)

pvars == <<out, todo, offs, plan>>

Tok(b)  == [w |-> "tok", b |-> b]
Raw(b)  == [w |-> "raw", b |-> b]
Val(v)  == [w |-> "val", v |-> v]
Top1    == todo[1]
Rest    == Tail(todo)

AsciiDigits(n) == DigitBytes(NatDigits(n))

-----------------------------------------------------------------------------
(* Object level *)

EmitTok ==
    /\ todo # <<>> /\ Top1.w = "tok"
    /\ \E sep \in Seps :
          /\ (NeedSep(out, Top1.b) => sep # <<>>)
          /\ out' = out \o sep \o Top1.b
    /\ todo' = Rest /\ UNCHANGED <<offs, plan>>

EmitRaw ==
    /\ todo # <<>> /\ Top1.w = "raw"
    /\ out' = out \o Top1.b
    /\ todo' = Rest /\ UNCHANGED <<offs, plan>>

IsVal(kind) == todo # <<>> /\ Top1.w = "val" /\ Top1.v.k = kind

XNull == IsVal("null") /\ todo' = <<Tok(KwNull)>> \o Rest /\ UNCHANGED <<out, offs, plan>>
XBool == IsVal("bool") /\ todo' = <<Tok(IF Top1.v.v THEN KwTrue ELSE KwFalse)>> \o Rest /\ UNCHANGED <<out, offs, plan>>
XInt  == IsVal("int")  /\ \E st \in IntStyles : todo' = <<Tok(IntSpell(Top1.v, st))>> \o Rest
                       /\ UNCHANGED <<out, offs, plan>>
XReal == IsVal("real") /\ \E st \in RealStyles : todo' = <<Tok(RealSpell(Top1.v, st))>> \o Rest
                       /\ UNCHANGED <<out, offs, plan>>
XName == IsVal("name") /\ \E st \in NameStyles : todo' = <<Tok(NameSpell(Top1.v.v, st))>> \o Rest
                       /\ UNCHANGED <<out, offs, plan>>
XLit  == IsVal("str")  /\ \E st \in LitStyles : LitStyleOk(Top1.v.v, st) /\ todo' = <<Tok(LitSpell(Top1.v.v, st))>> \o Rest
                       /\ UNCHANGED <<out, offs, plan>>
XHex  == IsVal("str")  /\ \E st \in HexStyles : todo' = <<Tok(HexSpell(Top1.v.v, st))>> \o Rest
                       /\ UNCHANGED <<out, offs, plan>>
XRef  == IsVal("ref")  /\ todo' = <<Tok(AsciiDigits(Top1.v.v)), Tok(AsciiDigits(Top1.v.w)), Tok(KwR)>> \o Rest
                       /\ UNCHANGED <<out, offs, plan>>
XArr  == IsVal("arr")  /\ todo' = <<Tok(<<91>>)>> \o [i \in 1..Len(Top1.v.v) |-> Val(Top1.v.v[i])] \o <<Tok(<<93>>)>> \o Rest
                       /\ UNCHANGED <<out, offs, plan>>

DictItems(d, keys) == Concat([i \in 1..Len(keys) |-> <<Val(OName(keys[i])), Val(d[keys[i]])>>])

XDict == IsVal("dict") /\ \E rev \in BOOLEAN :
                            LET keys == IF rev THEN Reverse(SetToSeq(DOMAIN Top1.v.v)) ELSE SetToSeq(DOMAIN Top1.v.v)
                            IN todo' = <<Tok(<<60, 60>>)>> \o DictItems(Top1.v.v, keys) \o <<Tok(<<62, 62>>)>> \o Rest
                       /\ UNCHANGED <<out, offs, plan>>

ObjectNext == EmitTok \/ EmitRaw \/ XNull \/ XBool \/ XInt \/ XReal \/ XName \/ XLit \/ XHex \/ XRef \/ XArr \/ XDict

-----------------------------------------------------------------------------
(* File level.  plan.doc = [version, binmark, objs |-> <<[num, gen, val]>>, trailer |-> map]     *)
(* plan.k = knobs: [order, xref \in {"table1","tableN","stream"}, w, eeol, junk, bin, slack, fin, lenind] *)

Doc == plan.doc
K == plan.k

\* the stream dictionary as written: Length added (direct, or a reference to object lenobj)
StreamDictWritten(o, lenref) ==
    IF Has(o.val.v, NameLength) THEN o.val.v     \* e.g. a reference to an integer object of the document
    ELSE MapPut(o.val.v, NameLength, NatObj(Len(o.val.w)))

ObjItems(o, lenref) ==
    <<[w |-> "objhdr", num |-> o.num, gen |-> o.gen, nosep |-> FALSE]>> \o
    (IF o.val.k = "stream"
     THEN <<Val(ODict(StreamDictWritten(o, lenref))), [w |-> "streamdata", c |-> o.val.w]>>
     ELSE <<Val(o.val)>>) \o
    <<Tok(KwEndobj)>>

\* "n g obj": the offset recorded is that of the first digit of n
ObjHdr ==
    /\ todo # <<>> /\ Top1.w = "objhdr"
    /\ \E sep \in Seps :
          /\ (NeedSep(out, <<48>>) => sep # <<>>)
          /\ (Top1.nosep => sep = <<>>)
          /\ out' = out \o sep \o AsciiDigits(Top1.num)
          /\ offs' = [n \in DOMAIN offs \cup {Top1.num} |-> IF n = Top1.num THEN Len(out \o sep) - K.junk ELSE offs[n]]
    /\ todo' = <<Tok(AsciiDigits(Top1.gen)), Tok(KwObj)>> \o Rest
    /\ UNCHANGED plan

\* "stream" EOL data [EOL] "endstream"   (7.3.8.1: CRLF or LF after the keyword)
StreamData ==
    /\ todo # <<>> /\ Top1.w = "streamdata"
    /\ \E sep \in Seps, e1 \in {<<10>>, <<13, 10>>}, e2 \in EOLs \cup {<<>>} :
          /\ (NeedSep(out, KwStream) => sep # <<>>)
          /\ out' = out \o sep \o KwStream \o e1 \o Top1.c \o e2 \o KwEndstream
    /\ todo' = Rest /\ UNCHANGED <<offs, plan>>

Header ==
    /\ todo # <<>> /\ Top1.w = "header"
    /\ \E e \in EOLs, e2 \in EOLs :
          out' = out \o PctPDF \o Doc.version \o e \o
                 (IF K.bin THEN <<37>> \o Doc.binmark \o e2 ELSE <<>>)
    /\ todo' = Rest /\ UNCHANGED <<offs, plan>>

\* one 20-byte cross-reference entry
Pad(d, n) == [i \in 1..(n - Len(d)) |-> 48] \o DigitBytes(d)
Entry(off, gen, inuse, eeol) ==
    Pad(NatDigits(off), 10) \o <<32>> \o Pad(NatDigits(gen), 5) \o <<32>> \o (IF inuse THEN KwN ELSE KwF) \o eeol

GenOf(num) == LET i == SelectInSeq(Doc.objs, LAMBDA o : o.num = num) IN Doc.objs[i].gen
Nums == {Doc.objs[i].num : i \in 1..Len(Doc.objs)}
MaxNum == IF Nums = {} THEN 0 ELSE CHOOSE n \in Nums : \A m \in Nums : m <= n

\* maximal runs of consecutive numbers in a set, as a sequence of <<first, count>>
Runs(S) ==
    LET starts == {n \in S : n - 1 \notin S}
        seqStarts == SortSeq(SetToSeq(starts), LAMBDA a, b : a < b)
        runLen(a) == CHOOSE k \in 1..Cardinality(S) : (\A j \in 0..(k - 1) : a + j \in S) /\ (a + k \notin S)
    IN [i \in 1..Len(seqStarts) |-> <<seqStarts[i], runLen(seqStarts[i])>>]

XrefTable ==
    /\ todo # <<>> /\ Top1.w = "xreftable"
    /\ \E e0 \in EOLs, e1 \in EOLs, ee \in {<<32, 10>>, <<32, 13>>, <<13, 10>>} :
          LET entry(n) == IF n \in Nums THEN Entry(offs[n], GenOf(n), TRUE, ee)
                          ELSE Entry(0, IF n = 0 THEN 65535 ELSE 0, FALSE, ee)
              one == AsciiDigits(0) \o <<32>> \o AsciiDigits(MaxNum + 1) \o e1 \o
                     Concat([n \in 1..(MaxNum + 1) |-> entry(n - 1)])
              runs == Runs(Nums \cup {0})
              many == Concat([r \in 1..Len(runs) |->
                         AsciiDigits(runs[r][1]) \o <<32>> \o AsciiDigits(runs[r][2]) \o e1 \o
                         Concat([j \in 1..runs[r][2] |-> entry(runs[r][1] + j - 1)])])
          IN out' = out \o KwXref \o e0 \o (IF K.xref = "table1" THEN one ELSE many)
    /\ todo' = Rest /\ UNCHANGED <<offs, plan>>

\* where the cross-reference section starts is remembered in offs[-1] style slot: we use a dedicated item
XrefStart ==      \* record the offset of the upcoming "xref" keyword or XRef stream object
    /\ todo # <<>> /\ Top1.w = "markxref"
    /\ \E sep \in NonEmptySeps :
          /\ out' = out \o sep
          /\ plan' = [plan EXCEPT !.xrefoff = Len(out \o sep) - K.junk]
    /\ todo' = Rest /\ UNCHANGED offs

TrailerDict == MapPut(Doc.trailer, NameSize, NatObj(MaxNum + 1 + K.slack))

StartXref ==
    /\ todo # <<>> /\ Top1.w = "startxref"
    /\ \E sep \in NonEmptySeps, e1 \in EOLs, e2 \in EOLs, fin \in EOLs \cup {<<>>} :
          out' = out \o sep \o KwStartxref \o e1 \o AsciiDigits(plan.xrefoff) \o e2 \o PctPctEOF \o fin
    /\ todo' = Rest /\ UNCHANGED <<offs, plan>>

\* big-endian field of width n
BE(x, n) == [i \in 1..n |-> IF n - i >= 4 THEN 0 ELSE (x \div (256 ^ (n - i))) % 256]   \* x < 2^31

\* the XRef stream object (7.5.8): all objects of Doc plus itself; rows per K.w
XrefStreamObj ==
    /\ todo # <<>> /\ Top1.w = "xrefstream"
    /\ LET self == MaxNum + 1
           w == K.w
           all == Nums \cup {self} \cup (IF w[1] = 0 THEN {} ELSE {0})
           offOf(n) == IF n = self THEN plan.xrefoff ELSE offs[n]
           genOf(n) == IF n = self THEN 0 ELSE GenOf(n)
           row(n) == IF n = 0 THEN BE(0, w[1]) \o BE(0, w[2]) \o BE(IF w[3] >= 2 THEN 65535 ELSE 0, w[3])
                     ELSE BE(1, w[1]) \o BE(offOf(n), w[2]) \o BE(genOf(n), w[3])
           runs == IF K.xref = "stream1" /\ w[1] # 0
                   THEN <<<<0, self + 1>>>>                                   \* one range, gaps as free entries
                   ELSE Runs(all)
           inRuns == UNION {{runs[r][1] + j : j \in 0..(runs[r][2] - 1)} : r \in 1..Len(runs)}
           rowOrFree(n) == IF n \in all THEN row(n) ELSE BE(0, w[1]) \o BE(0, w[2]) \o BE(0, w[3])
           data == Concat([r \in 1..Len(runs) |-> Concat([j \in 1..runs[r][2] |-> rowOrFree(runs[r][1] + j - 1)])])
           index == OArr(Concat([r \in 1..Len(runs) |-> <<NatObj(runs[r][1]), NatObj(runs[r][2])>>]))
           d0 == MapPut(MapPut(MapPut(Doc.trailer, NameType, OName(NameXRef)), NameSize, NatObj(self + 1 + K.slack)),
                        NameW, OArr(<<NatObj(w[1]), NatObj(w[2]), NatObj(w[3])>>))
           d1 == IF runs = <<<<0, self + 1>>>> /\ K.slack = 0 /\ K.noindex THEN d0 ELSE MapPut(d0, NameIndex, index)
           items == ObjItems([num |-> self, gen |-> 0, val |-> OStream(d1, data)], 0)
       IN todo' = <<[items[1] EXCEPT !.nosep = TRUE]>> \o Tail(items) \o Rest
    /\ UNCHANGED <<out, offs, plan>>

\* for the xref stream object the recorded xrefoff must be the header offset: ObjHdr picks the separator,
\* so the stream object's items are preceded by a "markxref" that emits the separator itself and the
\* header follows with an empty separator (NeedSep false after white-space).

FileNext == ObjectNext \/ ObjHdr \/ StreamData \/ Header \/ XrefTable \/ XrefStart \/ StartXref \/ XrefStreamObj

\* the initial work stack of a whole file
FilePlan(doc, k) ==
    LET objs == IF k.order = "desc" THEN Reverse(doc.objs) ELSE doc.objs
        lenref(o) == 0
    IN (IF k.junk > 0 THEN <<Raw(k.junkbytes)>> ELSE <<>>) \o
       <<[w |-> "header"]>> \o
       Concat([i \in 1..Len(objs) |-> ObjItems(objs[i], lenref(objs[i]))]) \o
       <<[w |-> "markxref"]>> \o
       (IF k.xref \in {"table1", "tableN"}
        THEN <<[w |-> "xreftable"], Tok(KwTrailer), Val(ODict(MapPut(doc.trailer, NameSize, NatObj(
                  (IF doc.objs = <<>> THEN 0 ELSE
                      LET ns == {doc.objs[i].num : i \in 1..Len(doc.objs)} IN CHOOSE n \in ns : \A m \in ns : m <= n) + 1 + k.slack))))>>
        ELSE <<[w |-> "xrefstream"]>>) \o
       <<[w |-> "startxref"]>>
=============================================================================
