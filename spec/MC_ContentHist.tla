--------------------------- MODULE MC_ContentHist ---------------------------
(* Exhaustive exploration of ContentHist: every history of up to MaxDisturb disturbances (every kind, *)
(* every thread) followed by a judged call (every thread, every operand depth).  With Emit = TRUE each *)
(* history that ends in a judged call is printed (REPLAY) and replayed into lopdf by `c14 history`.    *)
EXTENDS ContentHist, TLC, Json

CONSTANT Emit

DisturbS == \E t \in Threads, kind \in Kinds : Disturb(t, kind)
JudgeS == \E t \in Threads, d \in 0..MaxNest : Judge(t, d)
MCNext == DisturbS \/ JudgeS
Spec == Init /\ [][MCNext]_hvars

EmitInv == (Emit /\ res.valid) => PrintT(<<"REPLAY", ToJson([hist |-> hist, ok |-> DeclOk(res.d)])>>)
=============================================================================
