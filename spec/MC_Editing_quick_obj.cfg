SPECIFICATION Spec
CONSTANTS
  Devs <- DevBoth
  Ops <- OpsObj
  ByteStrings <- BytesQuick
  NumSeqs <- NumsQuick
  NewObjs <- MCNewObjs
  InheritBound <- MCInheritBound
  MaxDepth = 3
  Starts <- StartsObj1
  Allowed = {"resources.shadow.deep", "fresh.aboveMax", "maxid.setObject", "counts.indirect", "delete.bookmark"}
  Emit = TRUE
  EmitMod = 150
  EmitModV = 20
VIEW View
INVARIANTS Refines StartOk EmitViolations
CHECK_DEADLOCK FALSE
