SPECIFICATION Spec
CONSTANTS
  Devs <- DevBoth
  Ops <- OpsObj
  ByteStrings <- BytesQuick
  NumSeqs <- NumsQuick
  NewObjs <- MCNewObjs
  InheritBound <- MCInheritBound
  MaxDepth = 3
  Starts <- StartsObj1
  Allowed = {"resources.shadow.incremental"}
  Emit = TRUE
  EmitMod = 150
  EmitModV = 20
VIEW View
INVARIANTS Refines StartOk EmitViolations
CHECK_DEADLOCK FALSE
