SPECIFICATION Spec
CONSTANTS
  NP = 2
  MaxNums = 2
  Dev <- CarryDev
  Emit = FALSE
INVARIANTS E
CHECK_DEADLOCK FALSE
