---------------------------- MODULE MC_SaveSink ----------------------------
(* Fault enumeration on the model: every writer program of 1..MaxCalls write_all calls with     *)
(* buffers of MinBuf..MaxBuf bytes (optionally call 1 through the raw site) x every schedule of  *)
(* the sink (all chunkings, up to MaxIntr Interrupted, Ok(0) / Err at every call), then the      *)
(* later save to a healthy sink.  Byte j of the complete output has value j, so that Prefix and   *)
(* ChunkFree are exact.  With Emit = TRUE (needs KeepHist) every completed first attempt is       *)
(* printed as one JSON line: the sink's schedule, replayed into lopdf by harness/src/bin/c19.rs.  *)
EXTENDS SaveSinkSys, Json

CONSTANTS MaxCalls, MinBuf, MaxBuf, RawChoices, Emit

LenSeqs == UNION {[1..n -> MinBuf..MaxBuf] : n \in 1..MaxCalls}

ProgOf(lens) == LET P == PrefixSums(lens)
                IN  [k \in 1..Len(lens) |-> [j \in 1..lens[k] |-> P[k] + j]]

\* path X: with the deviation switched on, any non-empty set of sites; otherwise none
XChoices(lens) == IF DevIgnoredWrite THEN (SUBSET (1..Len(lens))) \ {{}} ELSE {{}}

Init == \E lens \in LenSeqs, r \in RawChoices : \E xs \in XChoices(lens) : InitWith(ProgOf(lens), r, xs)

Next == WCall \/ WFinish \/ WLoop \/ SaveAgain \/ SinkAccept \/ SinkIntr \/ SinkOk0 \/ SinkErr

Spec == Init /\ [][Next]_vars

\* for ErrSurfacesLive: the writer keeps running; the sink answers every call
FairSpec == Spec /\ WF_vars(WriterNext) /\ WF_vars(SinkAccept)

Resps == [k \in 1..Len(hist) |-> hist[k][2]]

EmitInv ==
    (Emit /\ pc = "done" /\ attempt = 1) =>
        PrintT(<<"REPLAY", ToJson([lens   |-> [k \in 1..Len(prog) |-> Len(prog[k])],
                                   raw1   |-> raw1,
                                   sched  |-> Resps,
                                   expect |-> ExpectResult(Resps),
                                   impl   |-> [result |-> result, dlen |-> Len(delivered), counter |-> counter]])>>)
=============================================================================
