---------------------------- MODULE Trace_Outline ----------------------------
(* impl -> spec: every record is one observed run of lopdf on a bookmark forest the driver chose *)
(*   add_bookmark* ; [adjust_zero_pages] ; build_outline ; (add_object | new_object_id)* ;       *)
(*   catalog /Outlines (catalog_mut, or a new catalog made with add_object) ; get_toc ;          *)
(*   save_to/load_mem (xref table and xref stream) ; get_toc                                     *)
(* logged as [np, pageids, adds, adjust, bids, roots, children, adj, base, oldids, changed, root,*)
(* rootrec, max_id, items, later, tocs, room, untouched], or, for chains t1 > ... > tn of any    *)
(* length, in the per-level column format of Outline!ChainJudge (kind = "chain").                *)
(* Outline!Judge / ChainJudge (declarative layer) decide; the impl-shaped functions are run on   *)
(* the same forest only to report drift.  room >= 0: the base document's max_id lies `room`      *)
(* below the highest usable object number; a forest that needs more numbers than that cannot be  *)
(* given fresh identifiers by anybody, so for it the only demand is: an outline as specified, or  *)
(* no outline and an untouched document.                                                          *)
EXTENDS Outline, Json, IOUtils

Recs == ndJsonDeserialize(IOEnv.TRACE)

VARIABLE l

OgOf(r) == [root |-> r.root, rootrec |-> r.rootrec, max_id |-> r.max_id, oldids |-> r.oldids,
            changed |-> r.changed, later |-> r.later, items |-> r.items]

\* does lopdf agree with the transcription (ids, table contents, adjusted pages, toc)?
Drift(r) ==
    LET n   == Len(r.adds)
        s0  == ImplForest(r.adds)
        s1  == IF r.adjust THEN ImplAdjust(s0) ELSE s0
        b   == ImplBuild(s1, r.base)
        og  == ImplOg(b, 0, r.pageids, <<>>)
        P(p) == IF p \in 1..Len(r.pageids) THEN r.pageids[p] ELSE 0
    IN \/ r.bids # [k \in 1..n |-> k]
       \/ r.roots # s0.bms
       \/ \E k \in 1..n : r.children[k] # s0.tbl[k].children
       \/ \E k \in 1..n : r.adj[k] # P(s1.tbl[k].page)
       \/ r.root # b.root \/ r.max_id # b.maxid
       \/ r.later # [j \in 1..Len(r.later) |-> b.maxid + j]
       \/ r.rootrec.first # og.rootrec.first \/ r.rootrec.last # og.rootrec.last
       \/ Len(r.items) # Len(og.items)
       \/ \E j \in 1..Len(og.items) : r.items[j] # og.items[j]
       \/ r.tocs[1].toc # ImplToc(b.objs, b.root, r.np)

IsChain(r) == "kind" \in DOMAIN r

\* object numbers needed: the outline dictionary, an item and an action per bookmark
Needed(r) == 1 + 2 * (IF IsChain(r) THEN r.n ELSE Len(r.adds))
Exhausted(r) == r.room >= 0 /\ Needed(r) > r.room

NoOutline(r) ==
    IF ~Exhausted(r) THEN "build.none"
    ELSE IF r.untouched THEN "ok-refused" ELSE "fresh.refused-but-changed"

Judge1(r) ==
    IF IsChain(r)
    THEN IF r.n < 1 \/ (r.zero /\ r.n > 1 /\ ~r.adjust) THEN "ok-outside-domain"
         ELSE IF r.root = 0 THEN NoOutline(r)
         ELSE ChainJudge(r)
    ELSE IF ~InDomain(r.adds, r.np) \/ r.adds = <<>> \/ (HasZero(r.adds) /\ ~r.adjust) THEN "ok-outside-domain"
    ELSE IF r.root = 0 THEN NoOutline(r)
    ELSE LET v == Judge(r.adds, r.np, r.pageids, r.adjust, OgOf(r), r.tocs)
         IN IF v # "ok" THEN v
            ELSE IF Drift(r) THEN "ok-drift" ELSE "ok"

Init == l = 1
Next == /\ l <= Len(Recs)
        /\ PrintT(<<"VERDICT", ToJson([i |-> l, v |-> Judge1(Recs[l])])>>)
        /\ l' = l + 1
Spec == Init /\ [][Next]_l
Consumed == TLCGet("stats").diameter = Len(Recs) + 1
=============================================================================
