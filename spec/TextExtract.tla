----------------------------- MODULE TextExtract -----------------------------
(***************************************************************************)
(* Text extraction as a state machine over a page's content operations      *)
(* (property C16, next to TextString): Document::extract_text_chunks /       *)
(* extract_text of src/parser_aux.rs (extract_text_chunks_from_page and its  *)
(* inner collect_text).                                                      *)
(*                                                                          *)
(* Inputs                                                                   *)
(*   fm   the page's font map: resource name -> font                         *)
(*          [kind |-> "table",   pre |-> BOOLEAN, cell |-> [code -> Seq(char)]]*)
(*              an encoding that decodes code by code (a cell may be empty   *)
(*              = absent code, or hold several characters); pre = it is one  *)
(*              of the predefined one-byte encodings (the domain of C16)     *)
(*          [kind |-> "failing"] every decode_text call returns Err          *)
(*              (Encoding::SimpleEncoding of an unsupported name)            *)
(*          [kind |-> "partial", bad |-> code, cell |-> ...]  decoding a     *)
(*              string that holds `bad' returns Err (model only: lopdf has no *)
(*              such encoding today; kept so that the rule "keep what was     *)
(*              collected before the failing string" is explored)            *)
(*          [kind |-> "broken"]  get_font_encoding returns Err               *)
(*   ops  the content operations: [op |-> operator, args |-> operands],      *)
(*        operand = [k |-> "name", v |-> resource name] | [k |-> "str", v |-> *)
(*        Seq(code)] | [k |-> "arr", v |-> Seq(operand)] | [k |-> "int", v |-> *)
(*        Int] | [k |-> "other"] (real, boolean, null, dictionary, ...)       *)
(* Characters are numbers; 32 is the space and 10 the newline the extractor  *)
(* itself inserts.                                                           *)
(*                                                                          *)
(* Output: chunks, a sequence of [ok |-> TRUE, t |-> text] / [ok |-> FALSE], *)
(* and extract_text's result [ok, t].                                        *)
(*                                                                          *)
(* Two layers (DESIGN 2.9).  Impl-shaped: StepR / Flush / RunR, exactly as   *)
(* the code is for rep = {} (one Step per content operation), with the       *)
(* proposed repairs as switches.  Declarative: what the page shows (Shown:   *)
(* Tj TJ ' " under the font of the graphics state) and the facts a user      *)
(* relies on, ClauseA .. ClauseD, stated on the inputs without the automaton.*)
(***************************************************************************)
EXTENDS Integers, Sequences, FiniteSets, SequencesExt, TLC

SP == 32
NL == 10

OkChunk(t) == [ok |-> TRUE, t |-> t]
ErrChunk == [ok |-> FALSE, t |-> <<>>]

\* fonts extract_text_chunks_from_page keeps in its `encodings' map
Known(fm) == {n \in DOMAIN fm : fm[n].kind # "broken"}
Broken(fm) == {n \in DOMAIN fm : fm[n].kind = "broken"}

CellOf(f, c) == IF c \in DOMAIN f.cell THEN f.cell[c] ELSE <<>>

\* Document::decode_text(encoding, bytes): [ok, t]
Decode(f, s) ==
    CASE f.kind = "failing" -> [ok |-> FALSE, t |-> <<>>]
      [] f.kind = "partial" /\ \E i \in 1..Len(s) : s[i] = f.bad -> [ok |-> FALSE, t |-> <<>>]
      [] OTHER -> [ok |-> TRUE, t |-> FoldLeft(LAMBDA acc, c : acc \o CellOf(f, c), <<>>, s)]

-----------------------------------------------------------------------------
(* Impl-shaped layer *)

\* collect_text(text, encoding, operands): the first failing string stops everything (the `?'), the text
\* collected so far stays; an array appends one space after its strings, an integer below -100 a space.
RECURSIVE Collect(_, _, _)
Collect(f, text, operands) ==
    FoldLeft(LAMBDA acc, o :
                 IF ~acc.ok THEN acc
                 ELSE CASE o.k = "str" -> LET d == Decode(f, o.v) IN
                                          IF d.ok THEN [acc EXCEPT !.t = @ \o d.t] ELSE [acc EXCEPT !.ok = FALSE]
                        [] o.k = "arr" -> LET r == Collect(f, acc.t, o.v) IN
                                          IF r.ok THEN [ok |-> TRUE, t |-> Append(r.t, SP)] ELSE r
                        [] o.k = "int" -> IF o.v < -100 THEN [acc EXCEPT !.t = Append(@, SP)] ELSE acc
                        [] OTHER -> acc,
             [ok |-> TRUE, t |-> text], operands)

(* The code as it is knows Tf, Tj, TJ and ET.  Three repairs are switches of this layer (rep \subseteq   *)
(* AllReps; {} = as the code is), named like the findings they remove:                                   *)
(*   quote-ops    ' and " show text too (for " the text is the third operand)                            *)
(*   gstate-font  q saves and Q restores the current font (a restored font that differs starts a chunk)  *)
(*   et-flag      ET writes its newline unless the text ends with a newline that an ET wrote (as the     *)
(*                code is: unless the text ends with any newline, also one that was shown)               *)
AllReps == {"quote-ops", "gstate-font", "et-flag"}

\* enc: "none" or the resource name of the current font; failed: the whole call returned Err;
\* saved: the fonts saved by q; sep: the text ends with a newline written by ET
Start(fm) == [enc |-> "none", text |-> <<>>, failed |-> FALSE, saved |-> <<>>, sep |-> FALSE,
              chunks |-> [i \in 1..Cardinality(Broken(fm)) |-> ErrChunk]]

IsQuote(o) == o.op \in {"'", "\""}
\* the operands that hold the text: for " the first two are the word and character spacing
ShowOperands(o) == IF o.op = "\"" THEN SubSeq(o.args, 3, Len(o.args)) ELSE o.args

OpKind(o) == CASE o.op = "Tf" -> IF o.args = <<>> THEN "TfNoOperand"
                                 ELSE IF o.args[1].k # "name" THEN "TfNotName"
                                 ELSE "TfName"
               [] o.op \in {"Tj", "TJ"} -> "Show"
               [] IsQuote(o) -> "Quote"
               [] o.op = "q" -> "Save"
               [] o.op = "Q" -> "Restore"
               [] o.op = "ET" -> "ET"
               [] OTHER -> "Other"

FlushText(st) == IF st.text # <<>> THEN [st EXCEPT !.chunks = Append(@, OkChunk(st.text)), !.text = <<>>, !.sep = FALSE] ELSE st

ShowStep(fm, st, operands) ==
    IF st.enc = "none" THEN st
    ELSE LET r == Collect(fm[st.enc], st.text, operands)
             grown == [st EXCEPT !.text = r.t, !.sep = IF Len(r.t) # Len(st.text) THEN FALSE ELSE @]
         IN IF r.ok THEN grown ELSE [grown EXCEPT !.chunks = Append(@, ErrChunk)]

StepR(fm, st, o, rep) ==
    IF st.failed THEN st
    ELSE CASE OpKind(o) = "TfNoOperand" -> [st EXCEPT !.failed = TRUE]
           [] OpKind(o) = "TfName" ->
                  FlushText([st EXCEPT !.enc = IF o.args[1].v \in Known(fm) THEN o.args[1].v ELSE "none"])
           [] OpKind(o) = "TfNotName" ->            \* the error chunk is pushed before the pending text
                  FlushText([st EXCEPT !.enc = "none", !.chunks = Append(@, ErrChunk)])
           [] OpKind(o) = "Show" -> ShowStep(fm, st, o.args)
           [] OpKind(o) = "Quote" -> IF "quote-ops" \in rep THEN ShowStep(fm, st, ShowOperands(o)) ELSE st
           [] OpKind(o) = "Save" -> IF "gstate-font" \in rep THEN [st EXCEPT !.saved = Append(@, st.enc)] ELSE st
           [] OpKind(o) = "Restore" ->
                  IF "gstate-font" \in rep /\ st.saved # <<>>
                  THEN LET back == st.saved[Len(st.saved)]
                           popped == [st EXCEPT !.saved = SubSeq(@, 1, Len(@) - 1)]
                       IN IF back # st.enc THEN [FlushText(popped) EXCEPT !.enc = back] ELSE popped
                  ELSE st
           [] OpKind(o) = "ET" ->
                  IF "et-flag" \in rep
                  THEN (IF ~st.sep THEN [st EXCEPT !.text = Append(@, NL), !.sep = TRUE] ELSE st)
                  ELSE (IF st.text = <<>> \/ st.text[Len(st.text)] # NL THEN [st EXCEPT !.text = Append(@, NL), !.sep = TRUE] ELSE st)
           [] OTHER -> st

\* end of the content: flush; a failed call is reported by extract_text_chunks as the single chunk Err
Finish(st) == IF st.failed THEN <<ErrChunk>> ELSE FlushText(st).chunks

RunR(fm, ops, rep) == Finish(FoldLeft(LAMBDA st, o : StepR(fm, st, o, rep), Start(fm), ops))

\* as the code is
Step(fm, st, o) == StepR(fm, st, o, {})
Run(fm, ops) == RunR(fm, ops, {})

\* extract_text: `?' on every chunk, push_str otherwise
ExtractText(chunks) ==
    IF \E i \in 1..Len(chunks) : ~chunks[i].ok THEN [ok |-> FALSE, t |-> <<>>]
    ELSE [ok |-> TRUE, t |-> FoldLeft(LAMBDA acc, c : acc \o c.t, <<>>, chunks)]

-----------------------------------------------------------------------------
(* Declarative layer *)

IsLayout(c) == c \in {SP, NL}
Strip(t) == SelectSeq(t, LAMBDA c : ~IsLayout(c))
Concat(ss) == FoldLeft(LAMBDA acc, x : acc \o x, <<>>, ss)
NonEmpty(ss) == SelectSeq(ss, LAMBDA x : x # <<>>)

\* the strings of an operand list in reading order
RECURSIVE Strings(_)
Strings(operands) == FoldLeft(LAMBDA acc, o : CASE o.k = "str" -> Append(acc, o.v)
                                                [] o.k = "arr" -> acc \o Strings(o.v)
                                                [] OTHER -> acc,
                              <<>>, operands)

\* the font a Tf selects for showing text ("none": nothing that can be decoded)
Selected(fm, o) == IF OpKind(o) = "TfName" /\ o.args[1].v \in Known(fm) THEN o.args[1].v ELSE "none"

\* the four operators of ISO 32000-1 9.4.3 show text
ShowsText(o) == OpKind(o) \in {"Show", "Quote"}
ShownStrings(o) == Strings(ShowOperands(o))

\* What the page shows, read off the operations (ISO 32000-1 9.3.1, 9.4.3, 8.4.2): the font is set by Tf and is
\* part of the graphics state that q saves and Q restores; Tj, TJ, ' and " show their strings with it.
\*   segs   one entry per font selection (a Tf, a Q that brings back another font, and the text before the first
\*          Tf), each the in-order concatenation of the decoded strings shown under that selection
\*   err    some shown string does not decode
\*   quote  text was shown by ' or ";  restored  a Q brought back a font other than the current one
Shown(fm, ops) ==
    FoldLeft(LAMBDA acc, o :
                 IF o.op = "Tf" THEN [acc EXCEPT !.sel = Selected(fm, o), !.segs = Append(@, <<>>)]
                 ELSE IF OpKind(o) = "Save" THEN [acc EXCEPT !.stack = Append(@, acc.sel)]
                 ELSE IF OpKind(o) = "Restore" /\ acc.stack # <<>>
                 THEN LET back == acc.stack[Len(acc.stack)]
                          popped == [acc EXCEPT !.stack = SubSeq(@, 1, Len(@) - 1)]
                      IN IF back # acc.sel THEN [popped EXCEPT !.sel = back, !.segs = Append(@, <<>>), !.restored = TRUE] ELSE popped
                 ELSE IF ShowsText(o) /\ acc.sel # "none"
                 THEN LET ss == ShownStrings(o)
                          ds == [i \in 1..Len(ss) |-> Decode(fm[acc.sel], ss[i])]
                      IN [acc EXCEPT !.segs[Len(acc.segs)] = @ \o Concat([i \in 1..Len(ds) |-> ds[i].t]),
                                     !.err = @ \/ \E i \in 1..Len(ds) : ~ds[i].ok,
                                     !.quote = @ \/ (IsQuote(o) /\ ss # <<>>)]
                 ELSE acc,
             [sel |-> "none", stack |-> <<>>, segs |-> <<<<>>>>, err |-> FALSE, quote |-> FALSE, restored |-> FALSE], ops)

Segments(fm, ops) == Shown(fm, ops).segs
AllShown(fm, ops) == Concat(Segments(fm, ops))

\* the repairs of AllReps the page needs before the code can return what it shows (computed from the input)
Needs(fm, ops) == (IF Shown(fm, ops).quote THEN {"quote-ops"} ELSE {}) \cup (IF Shown(fm, ops).restored THEN {"gstate-font"} ELSE {})

\* the preconditions of (a) and (b): the call does not fail and no string fails to decode
CallFails(ops) == \E i \in 1..Len(ops) : OpKind(ops[i]) = "TfNoOperand"
DecodeErrorShown(fm, ops) == Shown(fm, ops).err
Clean(fm, ops) == ~CallFails(ops) /\ ~DecodeErrorShown(fm, ops)

OkTexts(chunks) == LET oks == SelectSeq(chunks, LAMBDA c : c.ok) IN [i \in 1..Len(oks) |-> oks[i].t]

\* (a) nothing lost, nothing duplicated, nothing reordered
ClauseA(fm, ops, chunks) == Clean(fm, ops) => Strip(Concat(OkTexts(chunks))) = Strip(AllShown(fm, ops))
\* (b) a chunk never mixes text shown under two different font selections: the chunks that carry text are
\*     exactly the selections that showed text, one for one
ClauseB(fm, ops, chunks) ==
    Clean(fm, ops) => NonEmpty([i \in 1..Len(OkTexts(chunks)) |-> Strip(OkTexts(chunks)[i])])
                      = NonEmpty([i \in 1..Len(Segments(fm, ops)) |-> Strip(Segments(fm, ops)[i])])
\* (c) extract_text fails iff some chunk is Err, and otherwise is the concatenation of the chunks
ClauseC(chunks, et) ==
    /\ et.ok <=> \A i \in 1..Len(chunks) : chunks[i].ok
    /\ et.ok => et.t = Concat(OkTexts(chunks))
\* (d) the result depends only on (fm, ops): two observations of the same page content agree
ClauseD(obs1, obs2) == obs1 = obs2

\* The domain C16's statement speaks about: every font of the page is a predefined one-byte encoding, every
\* Tf names one of them ("text shown with such an encoding") and nothing else sets the font (gs).  Inside it the
\* statement demands the shown text back: the call succeeds and, layout characters aside, returns AllShown.
\* Layout characters (the space and the newline) are the extractor's to place: a shown text that ends with a line
\* feed and the ET that follows it need not yield two newlines ("returned unchanged" is literally met by one).
InDomain(fm, ops) ==
    /\ \A n \in DOMAIN fm : fm[n].kind = "table" /\ fm[n].pre
    /\ \A i \in 1..Len(ops) : /\ ops[i].op = "Tf" => OpKind(ops[i]) = "TfName" /\ ops[i].args[1].v \in DOMAIN fm
                              /\ ops[i].op # "gs"
ReturnsShown(fm, ops, et) == et.ok /\ Strip(et.t) = Strip(AllShown(fm, ops))

-----------------------------------------------------------------------------
(* Call level: extract_text_chunks(page_numbers) on a document.                                     *)
(*   doc   sequence of pages [fm, ops] in page-tree order (page number = index)                     *)
(*   nums  the requested page numbers, in the order given; repeats allowed; a number that names no   *)
(*         page contributes the single chunk Err (PageNumberNotFound)                                *)
(* Declarative: font resource names are local to a page, so every requested page contributes the      *)
(* chunks computed from THAT page's font map and operations alone -- clause (e), per-page            *)
(* independence: a call is the concatenation of the one-page calls.                                   *)

PageChunks(doc, n) == IF n \in 1..Len(doc) THEN Run(doc[n].fm, doc[n].ops) ELSE <<ErrChunk>>
CallChunks(doc, nums) == Concat([i \in 1..Len(nums) |-> PageChunks(doc, nums[i])])

\* (e) on observed values: `whole' is what the call returned, singles[i] what the call for nums[i] alone returned
ClauseE(whole, singles) == whole = Concat(singles)

CallInDomain(doc, nums) == \A i \in 1..Len(nums) : nums[i] \in 1..Len(doc) /\ InDomain(doc[nums[i]].fm, doc[nums[i]].ops)
CallShown(doc, nums) == Concat([i \in 1..Len(nums) |-> IF nums[i] \in 1..Len(doc) THEN AllShown(doc[nums[i]].fm, doc[nums[i]].ops) ELSE <<>>])
CallReturnsShown(doc, nums, et) == et.ok /\ Strip(et.t) = Strip(CallShown(doc, nums))

(* Impl-shaped: the loop of extract_text_chunks over the page numbers.  As the code is, every page      *)
(* builds its encodings map afresh.  The switch "carry" (not in the code; TLC must refute it) keeps     *)
(* one name -> encoding map for the whole call and lets a page resolve only the names not yet in it.   *)
AllCallDevs == {"carry"}

\* the font map a page effectively works with, given what earlier pages of the call left behind
EffectiveFm(carried, fm, dev) ==
    IF "carry" \in dev
    THEN [n \in (DOMAIN carried) \cup (DOMAIN fm) |-> IF n \in DOMAIN carried THEN carried[n] ELSE fm[n]]
    ELSE fm
\* ... and what this page leaves behind (broken fonts are never kept)
CarryAfter(carried, fm, dev) ==
    IF "carry" \in dev
    THEN LET e == EffectiveFm(carried, fm, dev) IN [n \in Known(e) |-> e[n]]
    ELSE carried

CallRun(doc, nums, dev) ==
    FoldLeft(LAMBDA acc, n :
                 IF n \in 1..Len(doc)
                 THEN [out |-> acc.out \o Run(EffectiveFm(acc.carried, doc[n].fm, dev), doc[n].ops),
                       carried |-> CarryAfter(acc.carried, doc[n].fm, dev)]
                 ELSE [acc EXCEPT !.out = Append(@, ErrChunk)],
             [out |-> <<>>, carried |-> <<>>], nums).out
=============================================================================
