SPECIFICATION Spec
CONSTANTS
  Reps <- RepsThorough
  MaxLen = 3
  RawAlphabet <- RawBytes
  RawLen = 5
  RawExtra <- RawLong
  Dev <- AsIsDevs
  Emit = TRUE
INVARIANTS TypeOK TextRT_Decl Utf8Too_Decl Codecs_Decl AsciiStays FunctionForm Refines Repaired Distinct EmitInv
CHECK_DEADLOCK FALSE
