------------------------------- MODULE Codecs -------------------------------
(***************************************************************************)
(* Stream codecs as pure byte arithmetic (property C09; also used by the    *)
(* byte-level Producer / StrictReader).                                     *)
(*                                                                          *)
(*   ASCII85   Adobe base-85: groups, `z`, partial final group, white-space, *)
(*             EOD `~>`                      (ISO 32000-1 7.4.3)             *)
(*   PNG       row filters 0-4 with the Paeth predictor, one filter-type     *)
(*             byte per row chosen independently per row                     *)
(*                                       (PNG 6.2 / 9.2-9.4, ISO 32000 7.4.4.4) *)
(*   zlib      RFC 1950 wrapper with adler32 around RFC 1951 *stored* blocks *)
(*             (real Huffman deflate is flate2's code, not lopdf's)         *)
(*   ASCIIHex, RunLength, TIFF predictor 2: the reference pairs of CodecsExt  *)
(*             (ISO 32000-1 7.4.2, 7.4.5, 7.4.4.4), first-class stages here  *)
(*   LZW       9-12 bit codes packed MSB first, clear-table 256, EOD 257,    *)
(*             EarlyChange 0|1               (ISO 32000-1 7.4.4.2, TIFF 6)  *)
(*                                                                          *)
(* Every decoder returns [ok |-> BOOLEAN, data |-> Seq(Byte)].  Encoders are *)
(* the reference producers; their free choices (white-space, `z` or `!!!!!`, *)
(* block sizes, filter type per row, extra clear codes) are parameters.     *)
(* All arithmetic stays below 2^31 (TLC integers are 32 bit): 32-bit group   *)
(* values are handled as four base-256 digits.                              *)
(***************************************************************************)
EXTENDS Integers, Sequences, SequencesExt, FiniteSets, TLC

Byte == 0..255
Min2(a, b) == IF a < b THEN a ELSE b
Abs(x) == IF x < 0 THEN -x ELSE x
Zeros(n) == [i \in 1..n |-> 0]
Concat(ss) == FoldLeft(LAMBDA acc, s : acc \o s, <<>>, ss)
Fail(x) == [ok |-> FALSE, data |-> x]
Good(x) == [ok |-> TRUE, data |-> x]

-----------------------------------------------------------------------------
(* ASCII85 *)

WhiteSpace == {0, 9, 10, 12, 13, 32}        \* ISO 32000-1 7.2.2 Table 1

\* one long division of a base-256 number (most significant digit first) by 85
Div85(num) ==
    FoldLeft(LAMBDA acc, b : LET cur == acc.r * 256 + b
                             IN [q |-> Append(acc.q, cur \div 85), r |-> cur % 85],
             [q |-> <<>>, r |-> 0], num)

\* the five base-85 digits (most significant first) of a 4-byte big-endian group
A85Digits(four) ==
    LET s1 == Div85(four) s2 == Div85(s1.q) s3 == Div85(s2.q) s4 == Div85(s3.q) s5 == Div85(s4.q)
    IN <<s5.r, s4.r, s3.r, s2.r, s1.r>>

\* five base-85 digits -> the 4-byte group; not ok when the value exceeds 2^32 - 1
A85Value(digits) ==
    LET MulAdd(b, x) ==
            LET t4 == b[4] * 85 + x
                t3 == b[3] * 85 + t4 \div 256
                t2 == b[2] * 85 + t3 \div 256
                t1 == b[1] * 85 + t2 \div 256
            IN [b |-> <<t1 % 256, t2 % 256, t3 % 256, t4 % 256>>, over |-> t1 \div 256 > 0]
        S == FoldLeft(LAMBDA acc, x : LET m == MulAdd(acc.b, x) IN [b |-> m.b, over |-> acc.over \/ m.over],
                      [b |-> <<0, 0, 0, 0>>, over |-> FALSE], digits)
    IN [ok |-> ~S.over, data |-> S.b]

\* useZ: write an all-zero group as `z` (TRUE) or as `!!!!!` (FALSE, equally legal)
A85EncodeBody(data, useZ) ==
    LET n    == Len(data)
        full == n \div 4
        rem  == n % 4
        EncFull(g) == IF useZ /\ g = <<0, 0, 0, 0>> THEN <<122>>
                      ELSE LET ds == A85Digits(g) IN [k \in 1..5 |-> ds[k] + 33]
        body == Concat([i \in 1..full |-> EncFull(SubSeq(data, 4 * i - 3, 4 * i))])
        tail == IF rem = 0 THEN <<>>
                ELSE LET ds == A85Digits(SubSeq(data, 4 * full + 1, n) \o Zeros(4 - rem))
                     IN [k \in 1..(rem + 1) |-> ds[k] + 33]
    IN body \o tail

EOD85 == <<126, 62>>
A85Encode(data, useZ) == A85EncodeBody(data, useZ) \o EOD85

\* decoder: one step per input byte
A85Step(acc, ch) ==
    IF acc.st = "done" \/ acc.st = "err" THEN acc
    ELSE IF acc.st = "tilde" THEN
        IF ch = 62 THEN [acc EXCEPT !.st = "done"] ELSE [acc EXCEPT !.st = "err"]
    ELSE IF ch \in WhiteSpace THEN acc
    ELSE IF ch = 122 THEN
        IF acc.grp = <<>> THEN [acc EXCEPT !.out = @ \o <<0, 0, 0, 0>>] ELSE [acc EXCEPT !.st = "err"]
    ELSE IF ch = 126 THEN [acc EXCEPT !.st = "tilde"]
    ELSE IF ch \in 33..117 THEN
        LET g == Append(acc.grp, ch - 33) IN
        IF Len(g) < 5 THEN [acc EXCEPT !.grp = g]
        ELSE LET v == A85Value(g) IN
             IF v.ok THEN [acc EXCEPT !.grp = <<>>, !.out = @ \o v.data] ELSE [acc EXCEPT !.st = "err"]
    ELSE [acc EXCEPT !.st = "err"]

A85Decode(enc) ==
    LET S == FoldLeft(A85Step, [st |-> "run", grp |-> <<>>, out |-> <<>>], enc)
        k == Len(S.grp)
    IN IF S.st # "done" \/ k = 1 THEN Fail(S.out)
       ELSE IF k = 0 THEN Good(S.out)
       ELSE LET v == A85Value(S.grp \o [i \in 1..(5 - k) |-> 84])
            IN IF v.ok THEN Good(S.out \o SubSeq(v.data, 1, k - 1)) ELSE Fail(S.out)

-----------------------------------------------------------------------------
(* PNG row filters (PNG 9.2): x the byte, a left, b above, c upper left *)

PaethPredictor(a, b, c) ==
    LET p  == a + b - c
        pa == Abs(p - a)
        pb == Abs(p - b)
        pc == Abs(p - c)
    IN IF pa <= pb /\ pa <= pc THEN a ELSE IF pb <= pc THEN b ELSE c

Pred(ft, a, b, c) ==
    CASE ft = 0 -> 0
      [] ft = 1 -> a
      [] ft = 2 -> b
      [] ft = 3 -> (a + b) \div 2
      [] ft = 4 -> PaethPredictor(a, b, c)

Back(row, i, bpp) == IF i > bpp THEN row[i - bpp] ELSE 0

\* raw row -> filtered row (without the filter-type byte)
PngEncodeRow(ft, bpp, prev, raw) ==
    [i \in 1..Len(raw) |-> (raw[i] + 256 - Pred(ft, Back(raw, i, bpp), prev[i], Back(prev, i, bpp))) % 256]

\* filtered row -> raw row; prev is the *reconstructed* previous row
PngDecodeRow(ft, bpp, prev, filt) ==
    FoldLeft(LAMBDA acc, x : LET i == Len(acc) + 1
                             IN Append(acc, (x + Pred(ft, Back(acc, i, bpp), prev[i], Back(prev, i, bpp))) % 256),
             <<>>, filt)

\* data = rows of length L; fts[r] = filter type of row r
PngEncode(data, bpp, L, fts) ==
    LET Row(r) == IF r = 0 THEN Zeros(L) ELSE SubSeq(data, (r - 1) * L + 1, r * L)
    IN Concat([r \in 1..Len(fts) |-> <<fts[r]>> \o PngEncodeRow(fts[r], bpp, Row(r - 1), Row(r))])

PngDecode(enc, bpp, L) ==
    LET n == Len(enc) \div (L + 1)
        S == FoldLeft(LAMBDA acc, r :
                        LET ft   == enc[(r - 1) * (L + 1) + 1]
                            filt == SubSeq(enc, (r - 1) * (L + 1) + 2, r * (L + 1))
                        IN IF ft > 4 \/ ~acc.ok THEN [acc EXCEPT !.ok = FALSE]
                           ELSE LET row == PngDecodeRow(ft, bpp, acc.prev, filt)
                                IN [ok |-> TRUE, prev |-> row, out |-> acc.out \o row],
                      [ok |-> Len(enc) % (L + 1) = 0, prev |-> Zeros(L), out |-> <<>>],
                      [r \in 1..n |-> r])
    IN [ok |-> S.ok, data |-> S.out]

-----------------------------------------------------------------------------
(* zlib (RFC 1950) around stored deflate blocks (RFC 1951 3.2.4) *)

Adler32(data) ==
    LET S == FoldLeft(LAMBDA acc, x : LET a == (acc[1] + x) % 65521 IN <<a, (acc[2] + a) % 65521>>,
                      <<1, 0>>, data)
    IN <<S[2] \div 256, S[2] % 256, S[1] \div 256, S[1] % 256>>

\* bs = bytes per stored block (1..65535); an empty input is one empty final block
ZStored(data, bs) ==
    LET n  == Len(data)
        nb == IF n = 0 THEN 1 ELSE (n + bs - 1) \div bs
        Blk(k) == LET lo  == (k - 1) * bs + 1
                      hi  == Min2(k * bs, n)
                      len == hi - lo + 1
                  IN <<IF k = nb THEN 1 ELSE 0, len % 256, len \div 256, 255 - (len % 256), 255 - (len \div 256)>>
                     \o SubSeq(data, lo, hi)
    IN <<120, 1>> \o Concat([k \in 1..nb |-> Blk(k)]) \o Adler32(data)

RECURSIVE ZBlocks(_, _, _)          \* recursion depth = number of blocks, not bytes
ZBlocks(z, pos, out) ==
    IF pos + 4 > Len(z) THEN [ok |-> FALSE, data |-> out, next |-> pos]
    ELSE LET len  == z[pos + 1] + 256 * z[pos + 2]
             nlen == z[pos + 3] + 256 * z[pos + 4]
         IN IF z[pos] \notin {0, 1} \/ len + nlen # 65535 \/ pos + 4 + len > Len(z)
            THEN [ok |-> FALSE, data |-> out, next |-> pos]
            ELSE LET out2 == out \o SubSeq(z, pos + 5, pos + 4 + len)
                 IN IF z[pos] = 1 THEN [ok |-> TRUE, data |-> out2, next |-> pos + 5 + len]
                    ELSE ZBlocks(z, pos + 5 + len, out2)

\* TRUE iff z is a zlib stream made of stored blocks only (first block header decides)
ZIsStored(z) == Len(z) >= 3 /\ z[3] \in {0, 1}

ZInflateStored(z) ==
    IF Len(z) < 11 \/ z[1] % 16 # 8 \/ z[1] \div 16 > 7 \/ (z[1] * 256 + z[2]) % 31 # 0 \/ (z[2] \div 32) % 2 # 0
    THEN Fail(<<>>)
    ELSE LET b == ZBlocks(z, 3, <<>>)
         IN IF b.ok /\ b.next + 3 = Len(z) /\ SubSeq(z, b.next, b.next + 3) = Adler32(b.data)
            THEN Good(b.data) ELSE Fail(b.data)

-----------------------------------------------------------------------------
(* LZW (ISO 32000-1 7.4.4.2; TIFF 6.0 section 13 for the encoder side) *)

Pow2 == [k \in 0..20 |-> 2 ^ k]
LzwClear == 256
LzwEOD   == 257

\* Code width for the next code when `next` is the first unassigned code *as the decoder sees
\* it*: the width grows when next + early reaches 512, 1024, 2048 (early = 1: one code early).
LzwWidth(next, early) ==
    LET v == next + early
    IN IF v < 512 THEN 9 ELSE IF v < 1024 THEN 10 ELSE IF v < 2048 THEN 11 ELSE 12

\* append `code` in `w` bits, most significant bit first
PutCode(s, code, w) ==
    LET acc == s.acc * Pow2[w] + code
        nb  == s.nb + w
    IN IF nb >= 16
       THEN [s EXCEPT !.out = @ \o <<acc \div Pow2[nb - 8], (acc \div Pow2[nb - 16]) % 256>>,
                      !.acc = acc % Pow2[nb - 16], !.nb = nb - 16]
       ELSE [s EXCEPT !.out = Append(@, acc \div Pow2[nb - 8]), !.acc = acc % Pow2[nb - 8], !.nb = nb - 8]

\* Encoder.  State: w = code of the current prefix (-1 none), dict: <<prefix, byte>> -> code,
\* next = first unassigned code (encoder view: one ahead of the decoder), wd = current width.
\* resetAt: emit a clear-table code when `next` reaches this value (4094 = only when the table
\* is full; smaller values exercise clear codes on short inputs - always legal).
LzwEncode(data, early, resetAt) ==
    LET init == PutCode([acc |-> 0, nb |-> 0, out |-> <<>>, w |-> -1, dict |-> <<>>, next |-> 258, wd |-> 9],
                        LzwClear, 9)
        Step(s, c) ==
            IF s.w = -1 THEN [s EXCEPT !.w = c]
            ELSE IF <<s.w, c>> \in DOMAIN s.dict THEN [s EXCEPT !.w = s.dict[<<s.w, c>>]]
            ELSE LET e  == PutCode(s, s.w, s.wd)
                     nx == s.next + 1
                 IN IF nx >= resetAt
                    THEN LET wd2 == LzwWidth(nx - 1, early)      \* width the decoder uses for the clear code
                             r   == PutCode(e, LzwClear, wd2)
                         IN [r EXCEPT !.w = c, !.dict = <<>>, !.next = 258, !.wd = 9]
                    ELSE [e EXCEPT !.w = c, !.dict = (<<s.w, c>> :> s.next) @@ s.dict, !.next = nx,
                                   !.wd = LzwWidth(nx - 1, early)]
        S  == FoldLeft(Step, init, data)
        L  == IF S.w = -1 THEN S
              ELSE LET e == PutCode(S, S.w, S.wd) IN [e EXCEPT !.wd = LzwWidth(S.next, early)]
        F  == PutCode(L, LzwEOD, L.wd)
    IN IF F.nb = 0 THEN F.out ELSE Append(F.out, F.acc * Pow2[8 - F.nb])

\* Decoder.  tab[k] = string of code 257 + k; prev = string of the previous code (<<>> none).
LzwCode(s, code, early) ==
    IF code = LzwClear THEN [s EXCEPT !.tab = <<>>, !.prev = <<>>, !.wd = 9]
    ELSE IF code = LzwEOD THEN [s EXCEPT !.st = "done"]
    ELSE LET next == 258 + Len(s.tab)
             str  == IF code < 256 THEN <<code>>
                     ELSE IF code < next THEN s.tab[code - 257]
                     ELSE IF code = next /\ s.prev # <<>> THEN Append(s.prev, s.prev[1])
                     ELSE <<>>
         IN IF str = <<>> THEN [s EXCEPT !.st = "err"]
            ELSE LET tab2 == IF s.prev # <<>> /\ next < 4096 THEN Append(s.tab, Append(s.prev, str[1])) ELSE s.tab
                 IN [s EXCEPT !.out = @ \o str, !.tab = tab2, !.prev = str,
                              !.wd = LzwWidth(258 + Len(tab2), early)]

LzwDecode(enc, early) ==
    LET Step(s, b) ==
            IF s.st # "run" THEN s
            ELSE LET acc == s.acc * 256 + b
                     nb  == s.nb + 8
                 IN IF nb < s.wd THEN [s EXCEPT !.acc = acc, !.nb = nb]
                    ELSE LzwCode([s EXCEPT !.acc = acc % Pow2[nb - s.wd], !.nb = nb - s.wd],
                                 acc \div Pow2[nb - s.wd], early)
        S == FoldLeft(Step, [st |-> "run", acc |-> 0, nb |-> 0, wd |-> 9, tab |-> <<>>, prev |-> <<>>, out |-> <<>>], enc)
    IN [ok |-> S.st = "done", data |-> S.out]

-----------------------------------------------------------------------------
(* Filter chains (ISO 32000-1 7.4.1-7.4.4, Table 5 and Table 8)                            *)
(* A stage is [f, present, pred, colors, bpc, columns, early]: the filter name and the     *)
(* *effective* decode parameters of that filter (defaults where its dictionary has no entry *)
(* or is absent/null: Predictor 1, Colors 1, BitsPerComponent 8, Columns 1, EarlyChange 1). *)
(* `present` only says whether a parameter dictionary is written for the stage.            *)
(* Filters are listed in decoding order.                                                   *)

Flate == "FlateDecode"
Lzw   == "LZWDecode"
A85   == "ASCII85Decode"
AHx   == "ASCIIHexDecode"
RL    == "RunLengthDecode"

\* ASCIIHexDecode (7.4.2), RunLengthDecode (7.4.5) and the TIFF predictor (Predictor 2, every component width)
\* are the reference pairs of CodecsExt: AHxEncode/AHxDecode, RLEncode/RLDecode, TiffEncodeB/TiffDecodeB
CX == INSTANCE CodecsExt

DefaultParms == [present |-> FALSE, pred |-> 1, colors |-> 1, bpc |-> 8, columns |-> 1, early |-> 1]
Stage(f, p) == [f |-> f, present |-> p.present, pred |-> p.pred, colors |-> p.colors, bpc |-> p.bpc,
                columns |-> p.columns, early |-> p.early]

\* Predictor geometry (ISO 32000-1 Table 8, PNG 9): BitsPerComponent 1, 2, 4, 8 or 16.  A row is a whole number of
\* bytes, RowLen = ceil(Columns * Colors * BPC / 8); the PNG filters work on bytes whose left neighbour is one pixel,
\* but at least one byte, away: Bpp = max(1, ceil(Colors * BPC / 8)).
Bpp(p)     == LET b == (p.colors * p.bpc + 7) \div 8 IN IF b < 1 THEN 1 ELSE b
RowLen(p)  == (p.columns * p.colors * p.bpc + 7) \div 8
UsesPng(p) == p.pred \in 10..15
UsesTiff(p) == p.pred = 2

Unpredict(x, p) == IF UsesPng(p) THEN PngDecode(x, Bpp(p), RowLen(p))
                   ELSE IF UsesTiff(p) THEN CX!TiffDecodeB(x, p.colors, p.bpc, p.columns)
                   ELSE Good(x)

\* inflate of the zlib stream x.  `orc` is an oracle for real (Huffman) deflate data, which this
\* specification does not decode: [has |-> TRUE, data |-> bytes] = "an independent inflater says
\* x inflates to bytes"; it may only stand in for the first stage (that is the only place lopdf's
\* own compressor output can appear).
NoOracle == [has |-> FALSE, data |-> <<>>]
Inflate(x, orc) == IF orc.has THEN Good(orc.data) ELSE ZInflateStored(x)

DecodeStage(x, st, orc) ==
    IF st.f = A85 THEN A85Decode(x)
    ELSE IF st.f = Flate THEN LET z == Inflate(x, orc) IN IF z.ok THEN Unpredict(z.data, st) ELSE z
    ELSE IF st.f = Lzw THEN LET z == LzwDecode(x, st.early) IN IF z.ok THEN Unpredict(z.data, st) ELSE z
    ELSE IF st.f = AHx THEN CX!AHxDecode(x)
    ELSE IF st.f = RL THEN CX!RLDecode(x)
    ELSE Fail(x)

\* The declarative decode of a stream: content, chain of stages, oracle for stage 1.
DecodeO(x, chain, orc) ==
    LET S == FoldLeft(LAMBDA acc, i : IF acc.ok THEN DecodeStage(acc.data, chain[i], IF i = 1 THEN orc ELSE NoOracle)
                                      ELSE acc,
                      Good(x), [i \in 1..Len(chain) |-> i])
    IN S
Decode(x, chain) == DecodeO(x, chain, NoOracle)

\* A chain of zero filters is the identity: Decode(x, <<>>) = Good(x) (the fold above over no stage).
\* ISO 32000-1 Table 5 allows it explicitly ("an array of zero, one or several names"); it can be
\* written as no Filter entry, as /Filter null (7.3.9: the same as no entry) or as /Filter [].

\* Reference encoder of one stage.  ch = the encoder's free choices
\* [fts (filter type per row), bs (stored block size), useZ, reset (LZW clear threshold),
\*  style (ASCIIHex spelling), seg / eod (RunLength piece size, EOD written or not)].
EncodeStage(x, st, ch) ==
    LET pre == IF UsesPng(st) THEN PngEncode(x, Bpp(st), RowLen(st), ch.fts)
               ELSE IF UsesTiff(st) THEN CX!TiffEncodeB(x, st.colors, st.bpc, st.columns) ELSE x
    IN IF st.f = A85 THEN A85Encode(x, ch.useZ)
       ELSE IF st.f = AHx THEN CX!AHxEncode(x, ch.style)
       ELSE IF st.f = RL THEN CX!RLEncode(x, ch.seg, ch.eod)
       ELSE IF st.f = Flate THEN ZStored(pre, ch.bs)
       ELSE LzwEncode(pre, st.early, ch.reset)

\* encode for chain <<F1, ..., Fn>> (decoding order): Fn is applied first
RECURSIVE EncodeFrom(_, _, _, _)
EncodeFrom(x, chain, chs, i) ==
    IF i = 0 THEN x ELSE EncodeFrom(EncodeStage(x, chain[i], chs[i]), chain, chs, i - 1)
Encode(x, chain, chs) == EncodeFrom(x, chain, chs, Len(chain))

-----------------------------------------------------------------------------
(* Impl-shaped layer: Stream::decompressed_content as lopdf does it (src/object.rs,           *)
(* src/filters/png.rs).  DecodeParms is one dictionary (handed to every stage) or an array     *)
(* parallel to the filters.  The deviations once confirmed are switches (DESIGN 2.9); all      *)
(* three are repaired in lopdf (fix: commits 5efcc47, e585a1a, 82b7d97), so the code as it is   *)
(* is the layer with every switch FALSE; TRUE re-creates the old defect (used to name a         *)
(* regression by its exact effect and as a design-level negative control):                     *)
(*   devAvg   (h16)  Average reconstruction computes left + above \div 2                      *)
(*   devArr   (h17)  DecodeParms given as an array is ignored                                *)
(*   devNul          ASCII85: byte 0 is not skipped as white-space but ends the data          *)

ImplPred(ft, a, b, c, i, bpp, devAvg) ==
    IF ft = 3 /\ devAvg /\ i > bpp THEN (a + b \div 2) % 256 ELSE Pred(ft, a, b, c)

ImplPngDecodeRow(ft, bpp0, prev, filt, devAvg) ==
    LET bpp == Min2(bpp0, Len(filt))
    IN FoldLeft(LAMBDA acc, x : LET i == Len(acc) + 1
                                IN Append(acc, (x + ImplPred(ft, Back(acc, i, bpp), prev[i], Back(prev, i, bpp), i, bpp, devAvg)) % 256),
                <<>>, filt)

\* png::encode_row (public; the inverse of decode_row)
\*   devEncAvg  Average: left + above is added in u8 (wraps at 256) before it is halved
ImplPngEncodeRow(ft, bpp0, prev, raw, devEncAvg) ==
    LET bpp == Min2(bpp0, Len(raw))
    IN [i \in 1..Len(raw) |->
          LET a == Back(raw, i, bpp) b == prev[i]
              p == IF ft = 3 /\ devEncAvg /\ i > bpp THEN ((a + b) % 256) \div 2 ELSE Pred(ft, a, b, Back(prev, i, bpp))
          IN (raw[i] + 256 - p) % 256]

ImplPngDecode(enc, bpp, L, devAvg) ==
    LET n == (Len(enc) + L) \div (L + 1)          \* a trailing partial row is an error in decode_frame
        S == FoldLeft(LAMBDA acc, r :
                        IF ~acc.ok THEN acc
                        ELSE IF r * (L + 1) > Len(enc) \/ enc[(r - 1) * (L + 1) + 1] > 4 THEN [acc EXCEPT !.ok = FALSE]
                        ELSE LET row == ImplPngDecodeRow(enc[(r - 1) * (L + 1) + 1], bpp, acc.prev,
                                                         SubSeq(enc, (r - 1) * (L + 1) + 2, r * (L + 1)), devAvg)
                             IN [ok |-> TRUE, prev |-> row, out |-> acc.out \o row],
                      [ok |-> TRUE, prev |-> Zeros(L), out |-> <<>>], [r \in 1..n |-> r])
    IN [ok |-> S.ok, data |-> S.out]

ImplA85Step(acc, ch, devNul) ==
    IF devNul /\ ch = 0 /\ acc.st = "run" THEN [acc EXCEPT !.st = "done"] ELSE A85Step(acc, ch)

ImplA85Decode(enc, devNul) ==
    IF ~devNul \/ ~(\E i \in 1..Len(enc) : enc[i] = 0) THEN A85Decode(enc)
    ELSE LET cut == SubSeq(enc, 1, (CHOOSE i \in 1..Len(enc) : enc[i] = 0 /\ \A j \in 1..(i - 1) : enc[j] # 0) - 1)
         IN A85Decode(cut \o EOD85)

\* Stream::decompressed_content on a chain of zero filters.  ff = how the chain is written:
\* "absent" | "null" -> the call fails (no usable Filter entry; get_plain_content returns the content),
\* "empty" (/Filter []) -> the loop over the filters never runs;
\*   devEmpty  the result is then the *empty* output buffer instead of the content
ImplDecodeZero(x, ff, devEmpty) ==
    IF ff = "empty" THEN (IF devEmpty THEN Good(<<>>) ELSE Good(x)) ELSE Fail(x)

\* parms = the one dictionary lopdf hands to every Flate/LZW stage, or DefaultParms when it found none
ImplUnpredict(x, p, devAvg) ==
    IF p.present /\ UsesPng(p) THEN ImplPngDecode(x, Bpp(p), RowLen(p), devAvg)
    ELSE IF p.present /\ UsesTiff(p) THEN CX!TiffDecodeB(x, p.colors, p.bpc, p.columns)
    ELSE Good(x)

ImplDecodeO(x, chain, form, orc, devAvg, devArr, devNul) ==
    LET P(i) == IF form = "dict" THEN chain[1]
                ELSE IF form = "array" /\ ~devArr THEN chain[i]
                ELSE DefaultParms
        St(xx, i) ==
            LET f == chain[i].f p == P(i) IN
            IF f = A85 THEN ImplA85Decode(xx, devNul)
            ELSE IF f = Flate THEN LET z == Inflate(xx, IF i = 1 THEN orc ELSE NoOracle)
                                   IN IF z.ok THEN ImplUnpredict(z.data, p, devAvg) ELSE z
            ELSE IF f = Lzw THEN LET z == LzwDecode(xx, IF p.present THEN p.early ELSE 1)
                                 IN IF z.ok THEN ImplUnpredict(z.data, p, devAvg) ELSE z
            ELSE IF f = AHx THEN CX!AHxDecode(xx)
            ELSE IF f = RL THEN CX!RLDecode(xx)
            ELSE Fail(xx)
    IN FoldLeft(LAMBDA acc, i : IF acc.ok THEN St(acc.data, i) ELSE acc, Good(x), [i \in 1..Len(chain) |-> i])

-----------------------------------------------------------------------------
(* Thread history.  Decoding is a function of (content, dictionary) alone: the declarative     *)
(* Decode above has no other argument.  An implementation may keep scratch memory between      *)
(* calls (lopdf's candidates: the two row buffers of png::decode_frame); the impl-shaped layer  *)
(* below threads such a scratch state `rows` = [prev, cur] through every decode so that TLC can  *)
(* check that no sequence of earlier decodes - in particular decodes that FAIL part-way: a row   *)
(* cut off at any offset, a bad filter-type byte in row k, a cut zlib stream, a bad LZW code, a  *)
(* bad ASCII85 group - changes the result of a later one.                                       *)
(*   devRows   the row buffers are kept per thread, re-sized on entry (Vec::resize keeps the     *)
(*             old prefix) and cleared only at the end of a *successful* decode                  *)
(* With devRows = FALSE (the code as it is) the buffers are fresh zeros for every call.          *)

CleanRows == [prev |-> <<>>, cur |-> <<>>]
Resize(v, L) == [i \in 1..L |-> IF i <= Len(v) THEN v[i] ELSE 0]          \* Vec::resize(L, 0)

\* png::decode_frame; returns [ok, data, rows]
ImplPngDecodeT(enc, bpp, L, rows, devRows) ==
    IF enc = <<>> THEN [ok |-> TRUE, data |-> <<>>, rows |-> rows]
    ELSE IF L >= Len(enc) THEN [ok |-> FALSE, data |-> <<>>, rows |-> rows]      \* row longer than the data: refused before the buffers
    ELSE LET p0 == IF devRows THEN Resize(rows.prev, L) ELSE Zeros(L)
             c0 == IF devRows THEN Resize(rows.cur, L) ELSE Zeros(L)
             n  == (Len(enc) + L) \div (L + 1)
             S  == FoldLeft(LAMBDA acc, r :
                        IF ~acc.ok THEN acc
                        ELSE IF enc[(r - 1) * (L + 1) + 1] > 4 THEN [acc EXCEPT !.ok = FALSE]      \* invalid filter type
                        ELSE IF r * (L + 1) > Len(enc) THEN [acc EXCEPT !.ok = FALSE]                \* read_exact: row cut off
                        ELSE LET row == ImplPngDecodeRow(enc[(r - 1) * (L + 1) + 1], bpp, acc.prev,
                                                         SubSeq(enc, (r - 1) * (L + 1) + 2, r * (L + 1)), FALSE)
                             IN [ok |-> TRUE, prev |-> row, cur |-> acc.prev, out |-> acc.out \o row],   \* mem::swap
                      [ok |-> TRUE, prev |-> p0, cur |-> c0, out |-> <<>>], [r \in 1..n |-> r])
         IN [ok |-> S.ok, data |-> S.out,
             rows |-> IF devRows /\ ~S.ok THEN [prev |-> S.prev, cur |-> S.cur] ELSE CleanRows]

\* lopdf keeps whatever the inflater produced before an error (decompress_zlib only warns)
ImplInflateLenient(x, orc) == IF orc.has THEN orc.data ELSE ZInflateStored(x).data

\* Stream::decompressed_content with the scratch state; returns [ok, data, rows]
ImplDecodeT(x, chain, form, orc, rows, devRows) ==
    LET P(i) == IF form = "dict" THEN chain[1] ELSE IF form = "array" THEN chain[i] ELSE DefaultParms
        Unp(d, p, rw) == IF p.present /\ UsesPng(p) THEN ImplPngDecodeT(d, Bpp(p), RowLen(p), rw, devRows)
                         ELSE IF p.present /\ UsesTiff(p)
                         THEN LET z == CX!TiffDecodeB(d, p.colors, p.bpc, p.columns) IN [ok |-> z.ok, data |-> z.data, rows |-> rw]
                         ELSE [ok |-> TRUE, data |-> d, rows |-> rw]
        St(acc, i) ==
            LET f == chain[i].f p == P(i) IN
            IF f = A85 THEN LET z == A85Decode(acc.data) IN [ok |-> z.ok, data |-> z.data, rows |-> acc.rows]
            ELSE IF f = Flate THEN Unp(ImplInflateLenient(acc.data, IF i = 1 THEN orc ELSE NoOracle), p, acc.rows)
            ELSE IF f = Lzw THEN LET z == LzwDecode(acc.data, IF p.present THEN p.early ELSE 1)
                                 IN IF z.ok THEN Unp(z.data, p, acc.rows) ELSE [ok |-> FALSE, data |-> z.data, rows |-> acc.rows]
            ELSE IF f \in {AHx, RL} THEN LET z == IF f = AHx THEN CX!AHxDecode(acc.data) ELSE CX!RLDecode(acc.data)
                                      IN [ok |-> z.ok, data |-> z.data, rows |-> acc.rows]
            ELSE [ok |-> FALSE, data |-> acc.data, rows |-> acc.rows]
    IN IF chain = <<>> THEN [ok |-> TRUE, data |-> x, rows |-> rows]
       ELSE FoldLeft(LAMBDA acc, i : IF acc.ok THEN St(acc, i) ELSE acc, [ok |-> TRUE, data |-> x, rows |-> rows],
                     [i \in 1..Len(chain) |-> i])

=============================================================================
