SPECIFICATION Spec
CONSTANTS
  Devs <- DevBoth
  Ops <- OpsContent
  ByteStrings <- BytesTwo
  NumSeqs <- NumsTwo
  NewObjs <- MCNewObjs
  MaxDepth = 5
  Starts <- StartsContent
  Allowed = {}
  Emit = TRUE
  EmitMod = 2000
  EmitModV = 200
VIEW View
INVARIANTS Refines StartOk EmitViolations
CHECK_DEADLOCK FALSE
