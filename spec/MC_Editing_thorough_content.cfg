SPECIFICATION Spec
CONSTANTS
  Devs <- DevBoth
  Ops <- OpsContent
  ByteStrings <- BytesTwo
  NumSeqs <- NumsTwo
  NewObjs <- MCNewObjs
  InheritBound <- MCInheritBound
  MaxDepth = 5
  Starts <- StartsContent
  Allowed = {"resources.shadow.incremental"}
  Emit = TRUE
  EmitMod = 2000
  EmitModV = 200
VIEW View
INVARIANTS Refines StartOk EmitViolations
CHECK_DEADLOCK FALSE
