SPECIFICATION Spec
CONSTANTS
  Devs <- DevAll
  Ops <- OpsContent
  ByteStrings <- BytesTwo
  NumSeqs <- NumsTwo
  NewObjs <- MCNewObjs
  MaxDepth = 5
  Starts <- StartsContent
  Allowed = {"content.sharedStream", "resources.nameCollision"}
  Emit = TRUE
  EmitMod = 2000
  EmitModV = 200
VIEW View
INVARIANTS Refines StartOk EmitViolations
CHECK_DEADLOCK FALSE
