SPECIFICATION Spec
CONSTANTS
  Universe = "seq2"
  Emit = FALSE
  SepMode = "min"
INVARIANTS RoundTrip EmitInv
CHECK_DEADLOCK FALSE
