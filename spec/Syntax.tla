------------------------------- MODULE Syntax -------------------------------
(***************************************************************************)
(* StrictReader: a deterministic push-down automaton for the lexical and    *)
(* object syntax of ISO 32000-1 7.2-7.3 (tokens, the ten object kinds,      *)
(* indirect objects, streams), written as one Step per byte and folded over *)
(* the input with SequencesExt!FoldLeft (recursive descent over long byte   *)
(* sequences is unusably slow in TLC).  It is *strict*: whatever ISO does   *)
(* not allow sets err; it never guesses.  It is the independent third party *)
(* against which both lopdf's writer (C01, C03, C07, C14, C19) and lopdf's  *)
(* parser (C02, via the Producer in SyntaxProducer.tla) are judged.         *)
(*                                                                          *)
(* The automaton produces, in the bottom ("top") frame of its stack, the    *)
(* sequence of top-level items of the input with their byte offsets:        *)
(*   [it |-> "obj", num, gen, val, s, e]   indirect object  n g obj..endobj *)
(*   [it |-> "val", val, s]                a bare value                     *)
(*   [it |-> "kw",  v, s]                  a bare keyword (xref, trailer,   *)
(*                                         startxref, n, f; operators in    *)
(*                                         content mode)                    *)
(*   [it |-> "cmt", v, s]                  a comment (header, %%EOF)        *)
(* FileStructure.tla interprets that sequence as a PDF file, Content (below) *)
(* as a content stream.                                                     *)
(***************************************************************************)
EXTENDS PdfObjects, TLC


Frame(fk, off, num, gen) ==
    [fk |-> fk, items |-> <<>>, d |-> EmptyMap, key |-> <<>>, hk |-> FALSE, num |-> num, gen |-> gen, off |-> off]

InitAcc(cm, vb) ==
    [vb |-> vb,      \* verbatim mode (classifier only): raw end-of-line markers in literal strings are kept as written
     m |-> "ws", t |-> <<>>, n |-> 0, p |-> 1, s |-> 0, st |-> <<Frame("top", 0, 0, 0)>>, pend |-> <<>>,
     err |-> "", cm |-> cm, o |-> 0, oc |-> 0, hp |-> FALSE, hv |-> 0,
     xe |-> FALSE, rs |-> 0, re |-> 0, lr |-> <<>>]

Fail(a, msg) == IF a.err = "" THEN [a EXCEPT !.err = msg, !.n = a.p] ELSE a

Top(a) == a.st[Len(a.st)]
SetTop(a, fr) == [a EXCEPT !.st[Len(a.st)] = fr]
Push(a, fr) == [a EXCEPT !.st = Append(@, fr)]
Pop(a) == [a EXCEPT !.st = SubSeq(@, 1, Len(@) - 1)]

-----------------------------------------------------------------------------
(* Parser: Shift a completed token into the stack *)

-----------------------------------------------------------------------------
(* Inline images (8.9.7), content mode only.  "BI" opens a frame "bi" that collects key/value    *)
(* pairs like a dictionary; "ID" must be followed by exactly one white-space byte, then come      *)
(* InlineInfo(d).len bytes of image data (unfiltered images: height x ceil(width x components x   *)
(* bits / 8)), optional white-space and "EI".  The whole image becomes one top-level item         *)
(*   [it |-> "img", d |-> entries, rs, re |-> first/last data position, s |-> position of BI].    *)
(* Keys and colour-space names may be abbreviated as Tables 93 and 94 allow.                      *)
InKeyW   == <<87>>                   InKeyWidth  == <<87, 105, 100, 116, 104>>
InKeyH   == <<72>>                   InKeyHeight == <<72, 101, 105, 103, 104, 116>>
InKeyBPC == <<66, 80, 67>>           InKeyBits   == <<66, 105, 116, 115, 80, 101, 114, 67, 111, 109, 112, 111, 110, 101, 110, 116>>
InKeyCS  == <<67, 83>>               InKeyColorSpace == <<67, 111, 108, 111, 114, 83, 112, 97, 99, 101>>
InKeyF   == <<70>>                   InKeyFilter == <<70, 105, 108, 116, 101, 114>>
InKeyIM  == <<73, 77>>               InKeyImageMask == <<73, 109, 97, 103, 101, 77, 97, 115, 107>>
InKeyD   == <<68>>                   InKeyDecode == <<68, 101, 99, 111, 100, 101>>
InKeyI   == <<73>>                   InKeyInterpolate == <<73, 110, 116, 101, 114, 112, 111, 108, 97, 116, 101>>
CsG      == <<71>>                   CsDeviceGray == <<68, 101, 118, 105, 99, 101, 71, 114, 97, 121>>
CsRGB    == <<82, 71, 66>>           CsDeviceRGB  == <<68, 101, 118, 105, 99, 101, 82, 71, 66>>
CsCMYK   == <<67, 77, 89, 75>>       CsDeviceCMYK == <<68, 101, 118, 105, 99, 101, 67, 77, 89, 75>>

InlineMaxDim == 4096                 \* keeps the arithmetic inside TLC's 32-bit integers

\* [ok, len, why]: the number of data bytes of the inline image whose entries are d
InlineInfo(d) ==
    LET absent == [k |-> "absent"]
        get(ab, full) == IF Has(d, ab) /\ Has(d, full) THEN [k |-> "both"]
                         ELSE IF Has(d, ab) THEN d[ab] ELSE IF Has(d, full) THEN d[full] ELSE absent
        w == get(InKeyW, InKeyWidth)     h == get(InKeyH, InKeyHeight)
        bpc == get(InKeyBPC, InKeyBits)  cs == get(InKeyCS, InKeyColorSpace)
        flt == get(InKeyF, InKeyFilter)  im == get(InKeyIM, InKeyImageMask)
        \* optional entries that do not change the data length: Decode (2 numbers per component), Interpolate
        dec == get(InKeyD, InKeyDecode)  ipl == get(InKeyI, InKeyInterpolate)
        mask == im = OBool(TRUE)
        no(why) == [ok |-> FALSE, len |-> 0, why |-> why]
        ncomp == IF mask THEN 1
                 ELSE IF cs.k # "name" THEN 0
                 ELSE IF cs.v \in {CsG, CsDeviceGray} THEN 1
                 ELSE IF cs.v \in {CsRGB, CsDeviceRGB} THEN 3
                 ELSE IF cs.v \in {CsCMYK, CsDeviceCMYK} THEN 4
                 ELSE 0
        bits == IF mask /\ bpc = absent THEN 1 ELSE IF IntSmall(bpc) THEN IntVal(bpc) ELSE 0
    IN IF "both" \in {w.k, h.k, bpc.k, cs.k, flt.k, im.k, dec.k, ipl.k} THEN no("inline image entry given under both its names")
       ELSE IF ipl # absent /\ ipl.k # "bool" THEN no("Interpolate is not a boolean")
       ELSE IF dec # absent /\ ~(dec.k = "arr" /\ \A i \in 1..Len(dec.v) : dec.v[i].k \in {"int", "real"})
            THEN no("Decode is not an array of numbers")
       ELSE IF flt # absent THEN no("filtered inline image: data length is not determined by the entries")
       ELSE IF im # absent /\ im.k # "bool" THEN no("ImageMask is not a boolean")
       ELSE IF ~(IntSmall(w) /\ IntSmall(h)) THEN no("inline image without integer Width and Height")
       ELSE IF IntVal(w) > InlineMaxDim \/ IntVal(h) > InlineMaxDim THEN no("inline image larger than the model supports")
       ELSE IF mask /\ (cs # absent \/ bits # 1) THEN no("image mask with a colour space or more than one bit")
       ELSE IF ncomp = 0 THEN no("inline image colour space is not DeviceGray/RGB/CMYK (G, RGB, CMYK)")
       ELSE IF bits \notin {1, 2, 4, 8, 16} THEN no("inline image BitsPerComponent is not 1, 2, 4, 8 or 16")
       ELSE IF dec # absent /\ Len(dec.v) # 2 * ncomp THEN no("Decode array does not have two numbers per colour component")
       ELSE [ok |-> TRUE, len |-> IntVal(h) * ((IntVal(w) * ncomp * bits + 7) \div 8), why |-> ""]

PushVal(a, v, s) ==
    LET fr == Top(a) IN
    IF fr.fk = "dict" \/ fr.fk = "bi" THEN
        IF ~fr.hk THEN
            IF v.k # "name" THEN Fail(a, "dictionary key is not a name")
            ELSE IF v.v \in DOMAIN fr.d THEN Fail(a, "duplicate dictionary key")
            ELSE SetTop(a, [fr EXCEPT !.key = v.v, !.hk = TRUE])
        ELSE SetTop(a, [fr EXCEPT !.d = MapPut(fr.d, fr.key, v), !.hk = FALSE])
    ELSE IF fr.fk = "top" THEN SetTop(a, [fr EXCEPT !.items = Append(@, [it |-> "val", val |-> v, s |-> s])])
    ELSE SetTop(a, [fr EXCEPT !.items = Append(@, v)])

FlushPend(a) ==
    IF a.pend = <<>> THEN a
    ELSE IF Len(a.pend) = 1 THEN PushVal([a EXCEPT !.pend = <<>>], a.pend[1].val, a.pend[1].s)
    ELSE LET a1 == PushVal([a EXCEPT !.pend = <<>>], a.pend[1].val, a.pend[1].s)
         IN IF a1.err # "" THEN a1 ELSE PushVal(a1, a.pend[2].val, a.pend[2].s)

TopItem(a, item) == SetTop(a, [Top(a) EXCEPT !.items = Append(@, item)])

ShiftKeyword(a, tok) ==
    LET fr == Top(a) IN
    IF a.cm THEN
        \* content stream: every keyword is an operator (BI/ID/EI handled by the lexer modes)
        IF fr.fk = "top" THEN
            IF tok.v = KwBI THEN Push(a, Frame("bi", tok.s, 0, 0))               \* inline image begins (num: 0 before ID, 1 after the data)
            ELSE TopItem(a, [it |-> "kw", v |-> tok.v, s |-> tok.s])
        ELSE IF fr.fk = "bi" THEN
            IF tok.v = KwID /\ fr.num = 0 THEN
                IF fr.hk THEN Fail(a, "inline image key without value")
                ELSE LET info == InlineInfo(fr.d) IN
                     IF info.ok THEN SetTop([a EXCEPT !.m = "idws", !.n = info.len], [fr EXCEPT !.num = 1])
                     ELSE Fail(a, info.why)
            ELSE IF tok.v = KwEI /\ fr.num = 1 THEN
                TopItem(Pop(a), [it |-> "img", d |-> fr.d, rs |-> a.rs, re |-> a.re, s |-> fr.off])
            ELSE Fail(a, "operator inside inline image")
        ELSE Fail(a, "operator inside array or dictionary")
    ELSE IF tok.v = KwEndobj THEN
        IF fr.fk = "obj" /\ Len(fr.items) = 1 /\ ~a.xe /\ Len(a.st) = 2
        THEN TopItem(Pop(a), [it |-> "obj", num |-> fr.num, gen |-> fr.gen, val |-> fr.items[1], s |-> fr.off,
                              e |-> a.p - 1, lr |-> a.lr, rs |-> a.rs, re |-> a.re])
        ELSE Fail(a, "misplaced endobj")
    ELSE IF tok.v = KwStream THEN
        IF fr.fk = "obj" /\ Len(fr.items) = 1 /\ fr.items[1].k = "dict" /\ ~a.xe /\ Has(fr.items[1].v, NameLength)
        THEN LET L == fr.items[1].v[NameLength] IN
             IF IntSmall(L) THEN [a EXCEPT !.m = "seol", !.n = IntVal(L), !.lr = <<>>]
             ELSE IF L.k = "ref" THEN [a EXCEPT !.m = "seol", !.n = 0, !.lr = <<L.v, L.w>>]
             ELSE Fail(a, "stream Length is neither an integer nor a reference")
        ELSE Fail(a, "misplaced stream keyword or missing Length")
    ELSE IF tok.v = KwEndstream THEN
        IF a.xe /\ fr.fk = "obj"
        THEN SetTop([a EXCEPT !.xe = FALSE], [fr EXCEPT !.items = <<[k |-> "stream", v |-> fr.items[1].v, w |-> <<a.rs, a.re>>]>>])
        ELSE Fail(a, "misplaced endstream")
    ELSE IF fr.fk = "top" /\ ~a.xe THEN TopItem(a, [it |-> "kw", v |-> tok.v, s |-> tok.s])
    ELSE Fail(a, "keyword inside a container")

Shift(a, tok) ==
    IF a.err # "" THEN a
    ELSE IF a.xe /\ ~(tok.t = "kw" /\ tok.v = KwEndstream) THEN Fail(a, "endstream expected after stream data")
    ELSE IF tok.t = "int" THEN
        IF Len(a.pend) = 2
        THEN PushVal([a EXCEPT !.pend = <<a.pend[2], tok>>], a.pend[1].val, a.pend[1].s)
        ELSE [a EXCEPT !.pend = Append(@, tok)]
    ELSE IF tok.t = "kw" /\ tok.v = KwR /\ ~a.cm THEN
        IF Len(a.pend) = 2 /\ IntSmall(a.pend[1].val) /\ IntSmall(a.pend[2].val) /\ IntVal(a.pend[2].val) <= 65535
        THEN PushVal([a EXCEPT !.pend = <<>>], ORef(IntVal(a.pend[1].val), IntVal(a.pend[2].val)), a.pend[1].s)
        ELSE Fail(a, "R without two preceding non-negative integers")
    ELSE IF tok.t = "kw" /\ tok.v = KwObj /\ ~a.cm THEN
        IF Len(a.pend) = 2 /\ IntSmall(a.pend[1].val) /\ IntSmall(a.pend[2].val) /\ IntVal(a.pend[2].val) <= 65535
           /\ Top(a).fk = "top"
        THEN Push([a EXCEPT !.pend = <<>>, !.lr = <<>>, !.rs = 0, !.re = 0],
                  Frame("obj", a.pend[1].s, IntVal(a.pend[1].val), IntVal(a.pend[2].val)))
        ELSE Fail(a, "obj without two preceding integers at top level")
    ELSE LET a1 == FlushPend(a) IN
         IF a1.err # "" THEN a1
         ELSE IF tok.t = "val" THEN PushVal(a1, tok.val, tok.s)
         ELSE IF tok.t = "[" THEN Push(a1, Frame("arr", tok.s, 0, 0))
         ELSE IF tok.t = "<<" THEN Push(a1, Frame("dict", tok.s, 0, 0))
         ELSE IF tok.t = "]" THEN
             IF Top(a1).fk = "arr" THEN PushVal(Pop(a1), OArr(Top(a1).items), Top(a1).off)
             ELSE Fail(a1, "unbalanced ]")
         ELSE IF tok.t = ">>" THEN
             IF Top(a1).fk = "dict" /\ ~Top(a1).hk THEN PushVal(Pop(a1), ODict(Top(a1).d), Top(a1).off)
             ELSE Fail(a1, "unbalanced >> or key without value")
         ELSE ShiftKeyword(a1, tok)

-----------------------------------------------------------------------------
(* Lexer *)

\* number token grammar (7.3.3): [+-]? ( digits | digits . digits? | . digits )
NumberToken(a) ==
    LET t == a.t
        signed == t[1] = 43 \/ t[1] = 45
        neg == t[1] = 45
        body == IF signed THEN Tail(t) ELSE t
        dot == SelectInSeq(body, LAMBDA x : x = 46)
        dots == Len(SelectSeq(body, LAMBDA x : x = 46))
        dig(seq) == [i \in 1..Len(seq) |-> seq[i] - 48]
    IN IF body = <<>> \/ dots > 1 \/ (dots = 1 /\ Len(body) = 1) THEN [t |-> "bad"]
       ELSE IF dot = 0
            THEN LET d == StripLeadingZeros(dig(body)) IN
                 [t |-> "int", val |-> OInt(neg /\ d # <<0>>, d), s |-> a.s]
            ELSE LET ip == StripLeadingZeros(dig(SubSeq(body, 1, dot - 1)))
                     fp == StripTrailingZeros(dig(SubSeq(body, dot + 1, Len(body))))
                 IN [t |-> "val", val |-> OReal(neg, ip, fp), s |-> a.s]

ShiftNum(a) ==
    LET tk == NumberToken(a) IN
    IF tk.t = "bad" THEN Fail(a, "malformed number") ELSE Shift([a EXCEPT !.m = "ws"], tk)

ShiftKw(a) ==
    LET a1 == [a EXCEPT !.m = "ws"] IN
    IF a.t = KwTrue THEN Shift(a1, [t |-> "val", val |-> OBool(TRUE), s |-> a.s])
    ELSE IF a.t = KwFalse THEN Shift(a1, [t |-> "val", val |-> OBool(FALSE), s |-> a.s])
    ELSE IF a.t = KwNull THEN Shift(a1, [t |-> "val", val |-> ONull, s |-> a.s])
    ELSE Shift(a1, [t |-> "kw", v |-> a.t, s |-> a.s])

\* A comment at top level is recorded (header, %%EOF).  It may arrive while integers are still
\* pending ("startxref 123 %%EOF", "1 0 %c obj"); Read sorts the top-level items by position.
EndComment(a) ==
    IF Len(a.st) = 1 /\ ~a.cm
    THEN TopItem([a EXCEPT !.m = "ws"], [it |-> "cmt", v |-> a.t, s |-> a.s])
    ELSE [a EXCEPT !.m = "ws"]

\* dispatch of byte b when no token is in progress
StartTok(a, b) ==
    IF IsWS(b) THEN a
    ELSE IF IsDigit(b) \/ b = 43 \/ b = 45 \/ b = 46 THEN [a EXCEPT !.m = "num", !.t = <<b>>, !.s = a.p]
    ELSE IF b = 47 THEN [a EXCEPT !.m = "name", !.t = <<>>, !.s = a.p]
    ELSE IF b = 40 THEN [a EXCEPT !.m = "lit", !.t = <<>>, !.n = 1, !.s = a.p]
    ELSE IF b = 60 THEN [a EXCEPT !.m = "lt", !.s = a.p]
    ELSE IF b = 62 THEN [a EXCEPT !.m = "gt", !.s = a.p]
    ELSE IF b = 91 THEN Shift(a, [t |-> "[", s |-> a.p])
    ELSE IF b = 93 THEN Shift(a, [t |-> "]", s |-> a.p])
    ELSE IF b = 37 THEN [a EXCEPT !.m = "cmt", !.t = <<>>, !.s = a.p]
    ELSE IF b = 41 \/ b = 123 \/ b = 125 THEN Fail(a, "unexpected delimiter")
    ELSE [a EXCEPT !.m = "kw", !.t = <<b>>, !.s = a.p]

LitByte(a, b) ==      \* byte b inside a literal string, mode "lit"
    IF b = 40 THEN [a EXCEPT !.t = Append(@, b), !.n = @ + 1]
    ELSE IF b = 41 THEN
        IF a.n = 1 THEN Shift([a EXCEPT !.m = "ws"], [t |-> "val", val |-> OStr(a.t), s |-> a.s])
        ELSE [a EXCEPT !.t = Append(@, b), !.n = @ - 1]
    ELSE IF b = 92 THEN [a EXCEPT !.m = "esc"]
    ELSE IF b = 13 THEN
        IF a.vb THEN [a EXCEPT !.t = Append(@, 13)]
        ELSE [a EXCEPT !.t = Append(@, 10), !.m = "litcr"]                  \* EOL marker reads as LF (7.3.4.2)
    ELSE [a EXCEPT !.t = Append(@, b)]

EscByte(a, b) ==
    LET put(x) == [a EXCEPT !.t = Append(@, x), !.m = "lit"] IN
    IF b = 110 THEN put(10) ELSE IF b = 114 THEN put(13) ELSE IF b = 116 THEN put(9)
    ELSE IF b = 98 THEN put(8) ELSE IF b = 102 THEN put(12)
    ELSE IF b = 40 \/ b = 41 \/ b = 92 THEN put(b)
    ELSE IF IsOct(b) THEN [a EXCEPT !.m = "oct", !.o = b - 48, !.oc = 1]
    ELSE IF b = 13 THEN [a EXCEPT !.m = "esccr"]
    ELSE IF b = 10 THEN [a EXCEPT !.m = "lit"]
    ELSE put(b)                                            \* backslash ignored

HexByte(a, b) ==
    IF IsHex(b) THEN
        IF a.hp THEN [a EXCEPT !.t = Append(@, a.hv * 16 + HexVal(b)), !.hp = FALSE]
        ELSE [a EXCEPT !.hv = HexVal(b), !.hp = TRUE]
    ELSE IF IsWS(b) THEN a
    ELSE IF b = 62 THEN
        LET t2 == IF a.hp THEN Append(a.t, a.hv * 16) ELSE a.t
        IN Shift([a EXCEPT !.m = "ws", !.hp = FALSE], [t |-> "val", val |-> OStr(t2), s |-> a.s])
    ELSE Fail(a, "bad byte in hexadecimal string")

BeginRaw(a) ==
    IF a.lr = <<>> THEN
        IF a.n = 0 THEN [a EXCEPT !.m = "ws", !.xe = TRUE, !.rs = a.p + 1, !.re = a.p]
        ELSE [a EXCEPT !.m = "raw", !.rs = a.p + 1]
    ELSE [a EXCEPT !.m = "rsearch", !.n = 0, !.rs = a.p + 1]

\* Knuth-Morris-Pratt state for the pattern "endstream" (only the prefix "e" overlaps)
SearchNext(k, b) ==
    IF b = KwEndstream[k + 1] THEN k + 1
    ELSE IF k = 7 /\ b = 110 THEN 2
    ELSE IF b = 101 THEN 1 ELSE 0

Dispatch(a, b) ==      \* after a token was shifted on a terminating byte b
    IF a.err # "" THEN a
    ELSE IF a.m = "seol" THEN
        (IF b = 13 THEN [a EXCEPT !.m = "seol2"] ELSE IF b = 10 THEN BeginRaw(a)
         ELSE Fail(a, "stream keyword not followed by CRLF or LF"))
    ELSE IF a.m = "idws" THEN                                   \* the byte that ends the keyword ID (8.9.7: one white-space)
        (IF ~IsWS(b) THEN Fail(a, "ID not followed by a white-space byte")
         ELSE IF a.n = 0 THEN [a EXCEPT !.m = "iend", !.rs = a.p + 1, !.re = a.p]
         ELSE [a EXCEPT !.m = "iraw", !.rs = a.p + 1])
    ELSE StartTok(a, b)

Step0(a, b) ==
    LET m == a.m IN
    IF m = "ws" THEN StartTok(a, b)
    ELSE IF m = "raw" THEN
        IF a.n = 1 THEN [a EXCEPT !.m = "ws", !.n = 0, !.xe = TRUE, !.re = a.p] ELSE [a EXCEPT !.n = @ - 1]
    ELSE IF m = "kw" THEN
        IF IsRegular(b) THEN [a EXCEPT !.t = Append(@, b)] ELSE Dispatch(ShiftKw(a), b)
    ELSE IF m = "num" THEN
        IF IsDigit(b) \/ b = 46 THEN [a EXCEPT !.t = Append(@, b)]
        ELSE IF IsRegular(b) THEN Fail(a, "number runs into regular characters")
        ELSE Dispatch(ShiftNum(a), b)
    ELSE IF m = "name" THEN
        IF b = 35 THEN [a EXCEPT !.m = "nh1"]
        ELSE IF IsRegular(b) THEN [a EXCEPT !.t = Append(@, b)]
        ELSE Dispatch(Shift([a EXCEPT !.m = "ws"], [t |-> "val", val |-> OName(a.t), s |-> a.s]), b)
    ELSE IF m = "nh1" THEN
        IF IsHex(b) THEN [a EXCEPT !.m = "nh2", !.hv = HexVal(b)] ELSE Fail(a, "bad # escape in name")
    ELSE IF m = "nh2" THEN
        IF IsHex(b) THEN [a EXCEPT !.m = "name", !.t = Append(@, a.hv * 16 + HexVal(b))] ELSE Fail(a, "bad # escape in name")
    ELSE IF m = "lit" THEN LitByte(a, b)
    ELSE IF m = "litcr" THEN IF b = 10 THEN [a EXCEPT !.m = "lit"] ELSE LitByte([a EXCEPT !.m = "lit"], b)
    ELSE IF m = "esc" THEN EscByte(a, b)
    ELSE IF m = "oct" THEN
        IF IsOct(b) /\ a.oc < 3 THEN [a EXCEPT !.o = @ * 8 + (b - 48), !.oc = @ + 1]
        ELSE LitByte([a EXCEPT !.t = Append(@, a.o % 256), !.m = "lit"], b)
    ELSE IF m = "esccr" THEN IF b = 10 THEN [a EXCEPT !.m = "lit"] ELSE LitByte([a EXCEPT !.m = "lit"], b)
    ELSE IF m = "lt" THEN
        IF b = 60 THEN Shift([a EXCEPT !.m = "ws"], [t |-> "<<", s |-> a.s])
        ELSE HexByte([a EXCEPT !.m = "hex", !.t = <<>>, !.hp = FALSE], b)
    ELSE IF m = "hex" THEN HexByte(a, b)
    ELSE IF m = "gt" THEN
        IF b = 62 THEN Shift([a EXCEPT !.m = "ws"], [t |-> ">>", s |-> a.s]) ELSE Fail(a, "single >")
    ELSE IF m = "cmt" THEN IF IsEOLb(b) THEN EndComment(a) ELSE [a EXCEPT !.t = Append(@, b)]
    ELSE IF m = "seol" THEN Dispatch(a, b)
    ELSE IF m = "seol2" THEN IF b = 10 THEN BeginRaw(a) ELSE Fail(a, "stream keyword followed by CR without LF")
    ELSE IF m = "rsearch" THEN
        LET k == SearchNext(a.n, b) IN
        IF k = 9 THEN Shift([a EXCEPT !.m = "kwend", !.n = 0, !.re = a.p - 9, !.xe = TRUE],
                            [t |-> "kw", v |-> KwEndstream, s |-> a.p - 8])
        ELSE [a EXCEPT !.n = k]
    ELSE IF m = "kwend" THEN
        IF IsRegular(b) THEN Fail(a, "endstream runs into regular characters") ELSE StartTok([a EXCEPT !.m = "ws"], b)
    ELSE IF m = "iraw" THEN                                     \* inline image data, a.n bytes left
        IF a.n = 1 THEN [a EXCEPT !.m = "iend", !.n = 0, !.re = a.p] ELSE [a EXCEPT !.n = @ - 1]
    ELSE IF m = "iend" THEN                                     \* after the data: white-space, then the keyword EI
        IF IsWS(b) THEN a
        ELSE IF b = 69 THEN [a EXCEPT !.m = "kw", !.t = <<b>>, !.s = a.p]
        ELSE Fail(a, "EI expected after inline image data")
    ELSE Fail(a, "unknown mode")

Step(a, b) == IF a.err # "" THEN a ELSE [Step0(a, b) EXCEPT !.p = a.p + 1]

\* run the automaton over bytes (a final LF terminates any pending token or comment)
RunV(bytes, cm, vb) ==
    LET a  == FoldLeft(Step, InitAcc(cm, vb), Append(bytes, 10))
        a1 == IF a.err # "" THEN a
              ELSE IF a.m # "ws" THEN Fail(a, "input ends inside a token")
              ELSE FlushPend(a)
    IN IF a1.err # "" THEN a1
       ELSE IF Len(a1.st) # 1 THEN Fail(a1, "input ends inside a container")
       ELSE IF a1.xe THEN Fail(a1, "input ends before endstream")
       ELSE a1

\* stream bodies are recorded as <<first, last>> byte positions during the fold; resolve them
RECURSIVE Resolve(_, _)
Resolve(bytes, o) ==
    IF o.k = "stream" THEN [o EXCEPT !.w = SubSeq(bytes, o.w[1], o.w[2])] ELSE o

\* result: [ok, err, errpos, items]
ReadV(bytes, cm, vb) ==
    LET a == RunV(bytes, cm, vb) IN
    IF a.err # "" THEN [ok |-> FALSE, err |-> a.err, at |-> a.n, items |-> <<>>]
    ELSE LET sorted == SortSeq(a.st[1].items, LAMBDA x, y : x.s < y.s) IN
         [ok |-> TRUE, err |-> "", at |-> 0,
          items |-> [i \in 1..Len(sorted) |->
                        LET it == sorted[i] IN
                        IF it.it = "obj" THEN [it EXCEPT !.val = Resolve(bytes, it.val)] ELSE it]]

Read(bytes, cm) == ReadV(bytes, cm, FALSE)

\* a single direct object spelled in bytes
ReadObject(bytes) ==
    LET r == Read(bytes, FALSE)
        its == SelectSeq(r.items, LAMBDA it : it.it # "cmt")          \* comments are white-space
    IN IF r.ok /\ Len(its) = 1 /\ its[1].it = "val" THEN [ok |-> TRUE, val |-> its[1].val]
       ELSE [ok |-> FALSE, val |-> ONull]
=============================================================================
