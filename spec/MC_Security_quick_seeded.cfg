SPECIFICATION Spec
CONSTANTS
  Prune = TRUE
  Dev_h12 = TRUE
  Dev_h13 = TRUE
  Dev_t127 = TRUE
  Dev_mdict = TRUE
  Dev_drop = TRUE
  Dev_cryptv = TRUE
  Dev_mdstr = TRUE
  Dev_osres = TRUE
  Dev_cind = TRUE
  Dev_osrep = TRUE
  Dev_dparr = TRUE
  DocIds = {"D1", "D2", "D3", "D4", "D5", "D6", "D7", "D8", "D9"}
  V2Lens = {40, 128}
  V4Stm = {"RC4", "AES128", "Identity"}
  V4Str = {"RC4", "AES128", "Identity"}
  EMs = {TRUE, FALSE}
  IdCfs = {"none", "custom"}
  V5Kinds = {"R5", "V5"}
  V5Flt = {"AES256"}
  Pairs <- PairsQuick
  Attempts <- AttemptsQuick
  MaxDepth = 5
  Emit = TRUE
  KnownTags <- AllKnown
INVARIANTS OnlyKnown JudgeTracks EmitInv
CONSTRAINT Bound
VIEW View
CHECK_DEADLOCK FALSE
