SPECIFICATION Spec
CONSTANTS
  Universe = "mixinl"
  Emit = TRUE
  SepMode = "content"
INVARIANTS RoundTrip EmitInv
CHECK_DEADLOCK FALSE
