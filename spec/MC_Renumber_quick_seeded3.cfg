SPECIFICATION Spec
CONSTANTS
  Layouts <- LayoutsAudit
  DangIds <- DangQuick
  Starts = {1, 2, 5}
  DevChain = FALSE
  DevDang = FALSE
  DevUnder = FALSE
  DevDup = FALSE
  DevClash = FALSE
  DevBmDang = FALSE
  DevReach = TRUE
  DevZero = TRUE
  DevFit = "panic"
  Limit = 20
  Allowed = {"ok", "bookmark.target.unreachable", "start0.capture", "panic.exactfit"}
  Emit = TRUE
  EmitMod = 1
INVARIANTS Refines Consistent FunctionForm RepairedRefines EmitInv
CHECK_DEADLOCK FALSE
