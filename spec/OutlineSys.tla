----------------------------- MODULE OutlineSys -----------------------------
(* The bookmark/outline life-cycle as a state machine: one action per public call.             *)
(*   AddBookmark* ; AdjustZeroPages | SkipAdjust ; BuildOutline ; AddObject* ;                 *)
(*   LinkCatalog | LinkNewCatalog ; GetToc ;                                                   *)
(*   SaveLoad(table) ; GetToc ; SaveLoad(stream) ; GetToc                                      *)
(* `adds` is the declarative forest (history of the adds), `bm`/`doc` the impl-shaped state.   *)
(* The document has np pages; page p is object 2 + p (1 = catalog, 2 = Pages), max_id = np+2.  *)
(* Save;Load is the identity on the object graph at this level (the byte level is the subject  *)
(* of C01-C03); it forgets the pending bookmark table and sets the xref format.                *)
EXTENDS Outline

CONSTANTS MaxB,        \* bound on the number of bookmarks
          NPs,         \* set of page counts
          MaxPost,     \* bound on the allocations between build_outline and the catalog link
          Reserve,     \* TRUE: build_outline leaves max_id past every id it used (as the code does);
                       \* FALSE: only past the root (deviation used as a control: Reserved must then fail)
          Titles       \* sequence of pairwise distinct titles; bookmark k gets Titles[((k-1+rot) % Len) + 1]

VARIABLES np, rot, adds, bm, doc, pc, tocs, adjusted

vars == <<np, rot, adds, bm, doc, pc, tocs, adjusted>>

Base(n) == n + 2
PageIds(n) == [p \in 1..n |-> 2 + p]

TitleFor(k) == Titles[((k - 1 + rot) % Len(Titles)) + 1]

NoDoc == [root |-> 0, maxid |-> 0, objs |-> NoObjs, linked |-> FALSE, xref |-> "stream", later |-> <<>>,
          post |-> 0, link |-> "none"]

Init ==
    /\ np \in NPs
    /\ rot \in 0..(Len(Titles) - 1)
    /\ adds = <<>>
    /\ bm = EmptyBm
    /\ doc = [NoDoc EXCEPT !.maxid = Base(np)]
    /\ pc = "add"
    /\ tocs = <<>>
    /\ adjusted = FALSE

AddBookmark ==
    /\ pc = "add" /\ Len(adds) < MaxB
    /\ \E parent \in 0..Len(adds), page \in 0..np :
          LET t == TitleFor(Len(adds) + 1) IN
          /\ adds' = Append(adds, [parent |-> parent, title |-> t, page |-> page])
          /\ bm' = ImplAdd(bm, t, page, parent)
    /\ UNCHANGED <<np, rot, doc, pc, tocs, adjusted>>

AdjustZeroPages ==
    /\ pc = "add" /\ adds # <<>> /\ InDomain(adds, np)
    /\ bm' = ImplAdjust(bm)
    /\ adjusted' = TRUE
    /\ pc' = "build"
    /\ UNCHANGED <<np, rot, adds, doc, tocs>>

\* adjust_zero_pages may be left out when no bookmark has the zero page
SkipAdjust ==
    /\ pc = "add" /\ adds # <<>> /\ InDomain(adds, np) /\ ~HasZero(adds)
    /\ pc' = "build"
    /\ UNCHANGED <<np, rot, adds, bm, doc, tocs, adjusted>>

BuildOutline ==
    /\ pc = "build"
    /\ LET b == ImplBuild(bm, doc.maxid) IN
       doc' = [doc EXCEPT !.root = b.root, !.maxid = IF Reserve THEN b.maxid ELSE b.root, !.objs = b.objs]
    /\ pc' = "post"
    /\ UNCHANGED <<np, rot, adds, bm, tocs, adjusted>>

\* any further allocation on the document after the outline was built (add_object stores, new_object_id
\* only reserves; the harness alternates, starting with add_object)
AddObject ==
    /\ pc = "post" /\ doc.post < MaxPost
    /\ doc' = [ImplAlloc(doc, doc.post % 2 = 0) EXCEPT !.post = @ + 1]
    /\ UNCHANGED <<np, rot, adds, bm, pc, tocs, adjusted>>

\* /Outlines set in the existing catalog through catalog_mut()
LinkCatalog ==
    /\ pc = "post"
    /\ doc' = [doc EXCEPT !.linked = TRUE, !.link = "mut"]
    /\ pc' = "toc"
    /\ UNCHANGED <<np, rot, adds, bm, tocs, adjusted>>

\* a new catalog carrying /Outlines is created with add_object and made the trailer's Root
LinkNewCatalog ==
    /\ pc = "post"
    /\ doc' = [ImplAlloc(doc, TRUE) EXCEPT !.linked = TRUE, !.link = "new"]
    /\ pc' = "toc"
    /\ UNCHANGED <<np, rot, adds, bm, tocs, adjusted>>

GetToc ==
    /\ pc = "toc"
    /\ tocs' = Append(tocs, [ok |-> doc.linked, toc |-> IF doc.linked THEN ImplToc(doc.objs, doc.root, np) ELSE <<>>])
    /\ pc' = IF Len(tocs) = 2 THEN "done" ELSE "save"
    /\ UNCHANGED <<np, rot, adds, bm, doc, adjusted>>

SaveLoad ==
    /\ pc = "save"
    /\ doc' = [doc EXCEPT !.xref = IF Len(tocs) = 1 THEN "table" ELSE "stream"]
    /\ bm' = EmptyBm
    /\ pc' = "toc"
    /\ UNCHANGED <<np, rot, adds, tocs, adjusted>>

Next == AddBookmark \/ AdjustZeroPages \/ SkipAdjust \/ BuildOutline \/ AddObject \/ LinkCatalog \/ LinkNewCatalog
           \/ GetToc \/ SaveLoad

Spec == Init /\ [][Next]_vars
=============================================================================
