----------------------------- MODULE OutlineSys -----------------------------
(* The bookmark/outline life-cycle as a state machine: one action per public call.             *)
(*   AddBookmark* ; AdjustZeroPages | SkipAdjust ; BuildOutline ; AddObject* ;                 *)
(*   LinkCatalog | LinkNewCatalog ; GetToc ;                                                   *)
(*   SaveLoad(table) ; GetToc ; SaveLoad(stream) ; GetToc                                      *)
(* `adds` is the declarative forest (history of the adds), `bm`/`doc` the impl-shaped state.   *)
(* The document has np pages; page p is object 2 + p (1 = catalog, 2 = Pages), max_id = np+2.  *)
(* Save;Load is the identity on the object graph at this level (the byte level is the subject  *)
(* of C01-C03); it forgets the pending bookmark table and sets the xref format.                *)
(*                                                                                             *)
(* Three document/machine-side dimensions, each with a switch "as the code is" / repaired:     *)
(*  - stack: every walker (adjust_zero_pages, build_outline, get_toc) has Stack frames; as it  *)
(*    is it needs one frame per level of the forest and the process aborts when they run out   *)
(*    (pc = "abort"); with WorkList it keeps its pending work on the heap and needs one frame. *)
(*  - dests: the document carries a named-destination table in spelling env.dsp next to the    *)
(*    forest; as it is get_toc fails on the spellings it cannot read, with FollowRefs it reads *)
(*    all of them (no bookmark uses the table).                                                *)
(*  - ids: object numbers end at env.idlimit; as it is build_outline's counter wraps, with     *)
(*    CheckedIds it refuses (pc = "refused", document untouched) when the numbers up to        *)
(*    idlimit - 1 do not suffice.                                                              *)
EXTENDS Outline

CONSTANTS MaxB,        \* bound on the number of bookmarks
          NPs,         \* set of page counts
          MaxPost,     \* bound on the allocations between build_outline and the catalog link
          Reserve,     \* TRUE: build_outline leaves max_id past every id it used (as the code does);
                       \* FALSE: only past the root (deviation used as a control: Reserved must then fail)
          Titles,      \* sequence of pairwise distinct titles; bookmark k gets Titles[((k-1+rot) % Len) + 1]
          Stack, WorkList,
          DestSpellings, FollowRefs,
          IdLimits, CheckedIds

VARIABLES np, rot, env, adds, bm, doc, pc, tocs, adjusted

vars == <<np, rot, env, adds, bm, doc, pc, tocs, adjusted>>

Base(n) == n + 2
PageIds(n) == [p \in 1..n |-> 2 + p]

TitleFor(k) == Titles[((k - 1 + rot) % Len(Titles)) + 1]

NoDoc == [root |-> 0, maxid |-> 0, objs |-> NoObjs, linked |-> FALSE, xref |-> "stream", later |-> <<>>,
          post |-> 0, link |-> "none"]

InitDoc(n) == [NoDoc EXCEPT !.maxid = Base(n)]

Init ==
    /\ np \in NPs
    /\ rot \in 0..(Len(Titles) - 1)
    /\ env \in [dsp : DestSpellings, idlimit : IdLimits]
    /\ adds = <<>>
    /\ bm = EmptyBm
    /\ doc = InitDoc(np)
    /\ pc = "add"
    /\ tocs = <<>>
    /\ adjusted = FALSE

\* a walker that needs `frames` stack frames as it is
Overflows(frames) == ~WorkList /\ frames > Stack

\* object numbers available above max_id when the highest number stays below idlimit (so that Size exists)
Room == (env.idlimit - 1) - Base(np)
Needed == 1 + 2 * Len(adds)
Enough == Needed <= Room

AddBookmark ==
    /\ pc = "add" /\ Len(adds) < MaxB
    /\ \E parent \in 0..Len(adds), page \in 0..np :
          LET t == TitleFor(Len(adds) + 1) IN
          /\ adds' = Append(adds, [parent |-> parent, title |-> t, page |-> page])
          /\ bm' = ImplAdd(bm, t, page, parent)
    /\ UNCHANGED <<np, rot, env, doc, pc, tocs, adjusted>>

AdjustZeroPages ==
    /\ pc = "add" /\ adds # <<>> /\ InDomain(adds, np)
    /\ IF Overflows(ForestFrames(bm.tbl, bm.bms))
       THEN pc' = "abort" /\ UNCHANGED <<bm, adjusted>>
       ELSE bm' = ImplAdjust(bm) /\ adjusted' = TRUE /\ pc' = "build"
    /\ UNCHANGED <<np, rot, env, adds, doc, tocs>>

\* adjust_zero_pages may be left out when no bookmark has the zero page
SkipAdjust ==
    /\ pc = "add" /\ adds # <<>> /\ InDomain(adds, np) /\ ~HasZero(adds)
    /\ pc' = "build"
    /\ UNCHANGED <<np, rot, env, adds, bm, doc, tocs, adjusted>>

BuildOutline ==
    /\ pc = "build"
    /\ IF Overflows(ForestFrames(bm.tbl, bm.bms))
       THEN pc' = "abort" /\ UNCHANGED doc
       ELSE IF CheckedIds /\ ~Enough
       THEN pc' = "refused" /\ UNCHANGED doc
       ELSE LET b0 == ImplBuild(bm, doc.maxid)
                b  == IF b0.maxid > env.idlimit THEN WrapBuild(b0, env.idlimit) ELSE b0
            IN /\ doc' = [doc EXCEPT !.root = b.root, !.maxid = IF Reserve THEN b.maxid ELSE b.root, !.objs = b.objs]
               /\ pc' = "post"
    /\ UNCHANGED <<np, rot, env, adds, bm, tocs, adjusted>>

\* any further allocation on the document after the outline was built (add_object stores, new_object_id
\* only reserves; the harness alternates, starting with add_object)
AddObject ==
    /\ pc = "post" /\ doc.post < MaxPost
    /\ doc' = [ImplAlloc(doc, doc.post % 2 = 0) EXCEPT !.post = @ + 1]
    /\ UNCHANGED <<np, rot, env, adds, bm, pc, tocs, adjusted>>

\* /Outlines set in the existing catalog through catalog_mut()
LinkCatalog ==
    /\ pc = "post"
    /\ doc' = [doc EXCEPT !.linked = TRUE, !.link = "mut"]
    /\ pc' = "toc"
    /\ UNCHANGED <<np, rot, env, adds, bm, tocs, adjusted>>

\* a new catalog carrying /Outlines is created with add_object and made the trailer's Root
LinkNewCatalog ==
    /\ pc = "post"
    /\ doc' = [ImplAlloc(doc, TRUE) EXCEPT !.linked = TRUE, !.link = "new"]
    /\ pc' = "toc"
    /\ UNCHANGED <<np, rot, env, adds, bm, tocs, adjusted>>

GetToc ==
    /\ pc = "toc"
    /\ IF doc.root \in DOMAIN doc.objs
          /\ Overflows(OutlineFrames(doc.objs, doc.objs[doc.root].first, Cardinality(DOMAIN doc.objs) + 1))
       THEN pc' = "abort" /\ UNCHANGED tocs
       ELSE LET readable == doc.linked /\ (FollowRefs \/ env.dsp \notin DestsUnreadableAsIs)
            IN /\ tocs' = Append(tocs, [ok |-> readable,
                                        toc |-> IF readable THEN ImplToc(doc.objs, doc.root, np) ELSE <<>>])
               /\ pc' = IF Len(tocs) = 2 THEN "done" ELSE "save"
    /\ UNCHANGED <<np, rot, env, adds, bm, doc, adjusted>>

SaveLoad ==
    /\ pc = "save"
    /\ doc' = [doc EXCEPT !.xref = IF Len(tocs) = 1 THEN "table" ELSE "stream"]
    /\ bm' = EmptyBm
    /\ pc' = "toc"
    /\ UNCHANGED <<np, rot, env, adds, tocs, adjusted>>

Next == AddBookmark \/ AdjustZeroPages \/ SkipAdjust \/ BuildOutline \/ AddObject \/ LinkCatalog \/ LinkNewCatalog
           \/ GetToc \/ SaveLoad

Spec == Init /\ [][Next]_vars
=============================================================================
