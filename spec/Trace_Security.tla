--------------------------- MODULE Trace_Security ---------------------------
(* impl -> spec: validates recorded call sequences of lopdf (`c05 record` on random documents x  *)
(* configurations x Unicode passwords x call sequences, and `c05 replay` on the behaviours TLC    *)
(* generated).  The file is a concatenation of runs:                                              *)
(*   Reset [cfg, objs]            configuration + password facts, the plaintext document as an     *)
(*                                abstract tree (strings / streams with their context)             *)
(*   (a Call "Rekey" also carries cfg: the configuration from then on)                                *)
(*   Call  [call, rel, pos, res, tenc, nobj, same, items]  one public call (or an Edit of the object  *)
(*                                at position pos by the caller) and what was observed                *)
(* The validator carries (i) the judge state of the declarative layer and judges every call with  *)
(* Security!Judge (Restored / Hidden / Rejects / EitherPw / ViaFile) — only this can yield a        *)
(* violation — and (ii) the impl-shaped symbolic state: every call is bound to the action of        *)
(* Security!Step, the predicted observation is compared with the logged one (TLC "infers" the      *)
(* symbolic payloads, the log only has equals-plaintext flags); a disagreement is reported as       *)
(* drift and the impl-shaped state is dropped until the next Reset, the judge state re-synchronises *)
(* to the logged observation (Security!Resync).                                                    *)
EXTENDS Security, Json, IOUtils, TLC

Recs == ndJsonDeserialize(IOEnv.TRACE)

VARIABLES l, cfg, s, j, synced

tvars == <<l, cfg, s, j, synced>>

RECURSIVE ObjOf(_)
ObjOf(o) ==
    CASE o.k = "str"    -> [k |-> "str", pl |-> Plain(o.pid, o.len)]
      [] o.k = "arr"    -> [k |-> "arr", v |-> [i \in DOMAIN o.v |-> ObjOf(o.v[i])]]
      [] o.k = "dict"   -> [k |-> "dict", typ |-> o.typ, v |-> [i \in DOMAIN o.v |-> ObjOf(o.v[i])]]
      [] o.k = "stream" -> [k |-> "stream", typ |-> o.typ, crypt |-> o.crypt, d |-> [i \in DOMAIN o.d |-> ObjOf(o.d[i])],
                            pl |-> Plain(o.pid, o.len), mem |-> o.mem]   \* mem: member positions, see AttachMembers
      [] OTHER          -> [k |-> "other"]

\* does the logged observation agree with the predicted one?  Items of 1..7 bytes may equal their
\* plaintext by chance when encrypted; bookkeeping objects are not written by save.
Agree(p, ev) ==
    /\ p.res = ev.res /\ p.tenc = ev.tenc /\ p.nobj = ev.nobj
    /\ Len(p.items) = Len(ev.items)
    /\ \A i \in 1..Len(ev.items) :
          LET a == p.items[i] b == ev.items[i] IN
          \/ b.otyp \in Bookkeeping
          \/ ~b.present /\ ~a.present
          \/ b.present /\ (a.eq = b.eq \/ (b.len < 8 /\ b.len > 0 /\ ~a.eq))

Init == l = 1 /\ cfg = [V |-> 0] /\ s = [none |-> TRUE] /\ j = J0 /\ synced = FALSE

DoReset(r) ==
    /\ cfg' = r.cfg
    /\ s' = S0(AttachMembers([i \in DOMAIN r.objs |-> ObjOf(r.objs[i])]))
    /\ j' = J0
    /\ synced' = (Len(Items(s'.objs)) = r.nitems)
    /\ PrintT(<<"VERDICT", ToJson([i |-> l, ok |-> TRUE, tags |-> {"ok-reset"}, drift |-> ~synced'])>>)

DoCall(r) ==
    LET cf == IF r.call = "Rekey" THEN r.cfg ELSE cfg          \* Rekey: MakeState with another configuration
        c  == [call |-> r.call, rel |-> r.rel, pos |-> r.pos]
        ev == [call |-> r.call, rel |-> r.rel, res |-> r.res, tenc |-> r.tenc, nobj |-> r.nobj, items |-> r.items, same |-> r.same]
        v  == Judge(cf, j, ev)
        \* a password relation the harness could not decide (convention for characters without a PDFDocEncoding code):
        \* the impl-shaped layer is not stepped (and stays unsynchronised until the next Reset); this is not drift
        uns == r.rel.u = "unsure" \/ r.rel.o = "unsure" \/ cf.e.u = "unsure" \/ cf.e.o = "unsure"
        \* an Edit / Rekey the driver issued although the document is encrypted, an Encrypt without a state, a Load without a
        \* file are refused by the harness: nothing happens
        refused == synced /\ r.call \in {"Edit", "Delete", "Rekey", "Encrypt", "Load"} /\ ~Callable(s, c) /\ r.res = "Err" /\ r.same
        \* SaveRev / SaveInc (files laid out by the driver resp. IncrementalDocument) are judged only: the impl-shaped
        \* state is dropped until the next Reset, which is not drift
        foreign == r.call \in {"SaveRev", "SaveInc"}
        can == synced /\ ~foreign /\ Callable(s, c) /\ ~uns
        t  == IF refused \/ foreign THEN s ELSE Step(cf, s, c)
        agree == refused \/ (can /\ Agree(Observe(s, t, c), ev))
    IN /\ j' = v.j
       /\ s' = IF agree THEN t ELSE s
       /\ synced' = agree
       /\ cfg' = cf
       /\ PrintT(<<"VERDICT", ToJson([i |-> l, ok |-> v.ok, tags |-> v.tags, drift |-> (synced /\ ~agree /\ ~uns /\ ~foreign)])>>)

Next ==
    /\ l <= Len(Recs)
    /\ IF Recs[l].ev = "Reset" THEN DoReset(Recs[l]) ELSE DoCall(Recs[l])
    /\ l' = l + 1

Spec == Init /\ [][Next]_tvars
Consumed == TLCGet("stats").diameter = Len(Recs) + 1
=============================================================================
