SPECIFICATION Spec
CONSTANTS
  MaxSteps = 2
  DevAvg = TRUE
  DevArr = FALSE
  DevStale = FALSE
INVARIANTS LengthInv StepOK
CHECK_DEADLOCK FALSE
