SPECIFICATION Spec
CONSTANTS
  MaxSteps = 2
  DevAvg = TRUE
  DevArr = FALSE
  DevStale = FALSE
INVARIANTS LengthInv StepOKModKnown
CHECK_DEADLOCK FALSE
