SPECIFICATION Spec
CONSTANTS
  Model = "window"
  N = 7
  MaxB = 2
  GuardOn = FALSE
INVARIANTS Variant Refines
CHECK_DEADLOCK FALSE
