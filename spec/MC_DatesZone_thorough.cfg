SPECIFICATION Spec
CONSTANTS
  Thorough = TRUE
  Dev_cache = FALSE
  OnlyFixed = FALSE
  Emit = TRUE
INVARIANTS LocalRefines HistoryFree ZoneSane EmitInv
CHECK_DEADLOCK FALSE
