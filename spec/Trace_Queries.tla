--------------------------- MODULE Trace_Queries ---------------------------
(* impl -> spec.  Every record is one document together with what lopdf did on it:               *)
(*   [doc |-> document, obs |-> <<[q, id, kind, msg]>>, res |-> results of the modelled queries]   *)
(* obs lists every public read-only call that did NOT return a value or an error (kind = panic /  *)
(* hang / crash), as observed by the supervisor of the isolated worker.                            *)
(* The declarative layer (Total) judges: a record with an observation is a violation.  The        *)
(* impl-shaped walkers, run "as the code is" on the recorded document, only (a) name the class of  *)
(* the violation — the narrow signature — when they predict exactly this failure for this query,   *)
(* (b) report drift between their prediction and lopdf's result, (c) predict, before a document is *)
(* executed, which queries will not return (pbad), so that the harness can budget its time-outs.   *)
(* Since every confirmed deviation is repaired (all Dev_ switches FALSE in the cfg) the walkers as  *)
(* the code is predict no failure; a second instance of the walkers with every switch TRUE          *)
(* (Old: the repaired defects) is consulted only for an observation the current walkers do not      *)
(* explain, so that a defect that comes back is reported under its own signature.                   *)
(* Records with fam # "" are the recorded LONG ACYCLIC CHAIN families (harness `c13 chains`): the    *)
(* document is ChainDoc(fam, len) with len up to 100 000, run on a thread whose stack holds between  *)
(* StackFrames (certainly) and StackFramesMax (at most) frames of a recursive walker.  They are      *)
(* judged with the closed forms ChainOutcomeS that MC_Queries checks against the walker automata:    *)
(* a crash of the call a walker serves is named *.depth when the walker, as the code is, needs more  *)
(* than StackFrames frames on this chain; predictions are made only where both stack sizes agree.    *)
EXTENDS Queries, Json, IOUtils, TLC

CONSTANT StackFramesMax

Old == INSTANCE Queries WITH Dev_NextCycle <- TRUE, Dev_FirstCycle <- TRUE, Dev_KidsCycle <- TRUE,
                             Dev_DestIndex <- TRUE, Dev_NdUnwrapD <- TRUE, Dev_NdKeyStr <- TRUE,
                             Dev_NdValIndex <- TRUE, Dev_CsIndex <- TRUE, Dev_SizeHint <- TRUE,
                             Dev_RsrcRecursion <- TRUE, Dev_FirstDepth <- TRUE, Dev_KidsDepth <- TRUE,
                             FirstWalkIterative <- FALSE

Recs == ndJsonDeserialize(IOEnv.TRACE)

VARIABLE l

Fin(st) == [pc |-> st.pc, cls |-> st.cls]
NA == [pc |-> "na", cls |-> ""]

Ids(d) == 1..NObj(d)

Pred(d) ==
    [outl  |-> Fin(OutRun(d, OutInit(d))),
     toc   |-> Fin(TocRun(d, OutInit(d))),
     pages |-> LET r == PgRun(d, PgInit(d)) IN [pc |-> r.pc, cls |-> r.cls, ids |-> r.out],
     nd    |-> [i \in Ids(d) |-> LET t == GetDictionary(d, i) IN IF t = None THEN NA ELSE Fin(NdRun(d, NdInit(t)))],
     img   |-> [i \in Ids(d) |-> Fin(ImgRun(d, ImgInit(d, i)))],
     deref |-> [i \in Ids(d) |-> DerefRun(d, DerefInit(Ref(i))).pc],
     cont  |-> [i \in Ids(d) |-> ContRun(d, ContInit(d, i)).out],
     rsrc  |-> [i \in Ids(d) |-> LET r == RsrcRun(d, RsrcInit(d, i)) IN [t |-> r.pc, ids |-> r.ids]]]

\* the same predictions by the walkers with the repaired defects switched back on (only the fields Sig reads)
PredOld(d) ==
    [outl  |-> Fin(Old!OutRun(d, Old!OutInit(d))),
     toc   |-> Fin(Old!TocRun(d, Old!OutInit(d))),
     pages |-> LET r == Old!PgRun(d, Old!PgInit(d)) IN [pc |-> r.pc, cls |-> r.cls, ids |-> r.out],
     nd    |-> [i \in Ids(d) |-> LET t == Old!GetDictionary(d, i) IN IF t = None THEN NA ELSE Fin(Old!NdRun(d, Old!NdInit(t)))],
     img   |-> [i \in Ids(d) |-> Fin(Old!ImgRun(d, Old!ImgInit(d, i)))]]

\* the public calls that start with get_pages() / page_iter().collect()
PageQueries == {"get_pages", "page_iter", "extract_text", "extract_text_chunks", "get_object_page"}

\* the walker prediction that speaks about observation o (NA when none does)
About(d, p, o) ==
    CASE o.q = "get_outlines" -> p.outl
      [] o.q = "get_toc" -> p.toc
      [] o.q \in PageQueries -> [pc |-> p.pages.pc, cls |-> p.pages.cls]
      [] o.q = "get_named_destinations" /\ o.id \in Ids(d) -> p.nd[o.id]
      [] o.q = "get_page_images" /\ o.id \in Ids(d) -> p.img[o.id]
      [] OTHER -> NA

Explains(pr, kind) ==
    \/ pr.pc = "panic" /\ kind = "panic"
    \/ pr.pc = "overflow" /\ kind = "crash"
    \/ pr.pc = "diverge" /\ kind \in {"hang", "crash"}

\* predicted non-total calls, as a sequence of [q, id, pc, cls]
PBad(d, p) ==
    LET E(q, i, pr) == IF pr.pc \in {"panic", "overflow", "diverge"}
                       THEN <<[q |-> q, id |-> i, pc |-> pr.pc, cls |-> pr.cls]>> ELSE <<>>
        S[i \in 0..NObj(d)] ==
            IF i = 0 THEN <<>>
            ELSE S[i - 1] \o E("get_named_destinations", i, p.nd[i]) \o E("get_page_images", i, p.img[i])
    IN E("get_outlines", 0, p.outl) \o E("get_toc", 0, p.toc) \o E("get_pages", 0, p.pages) \o S[NObj(d)]

\* signature of one observation: the model's class if the model predicts this very failure, else generic.
\* q = "all" is a whole-document run that was lost and (time budget) not attributed to one query: it takes
\* the class of the first predicted failure of that kind on this document, if there is one.
SigBy(d, p, o) ==
    LET pr   == About(d, p, o)
        pb   == PBad(d, p)
        hits == {j \in 1..Len(pb) : Explains(pb[j], o.kind)}
    IN IF o.q = "all" THEN (IF hits = {} THEN "" ELSE pb[CHOOSE j \in hits : \A k \in hits : j <= k].cls)
       ELSE IF Explains(pr, o.kind) THEN pr.cls ELSE ""

\* first the walkers as the code is, then (regression of a repaired defect) the walkers with the old deviations
\* via: for a document of the systematic key sweep (keys harvested from the sources under test, bound to references
\* forming cycles among visited dictionaries) the keys on the cycle, e.g. "cycle.Last.Prev"; "" otherwise.  A failure
\* no walker model explains is named by the call and, when there is one, by those keys.
Sig(d, p, o, via) ==
    LET now == SigBy(d, p, o) IN
    IF now # "" THEN now
    ELSE LET was == SigBy(d, PredOld(d), o) IN
         IF was # "" THEN was
         ELSE (IF o.q = "all" THEN "all." ELSE o.q \o ".") \o o.kind \o (IF via # "" THEN ":" \o via ELSE "")

IsTag(t) == t \in {"ok", "err"}

\* number of disagreements between the walker models and lopdf's results (never a violation)
Drift(d, p, r) ==
    LET B(x) == IF x THEN 1 ELSE 0
        bad(pr) == pr.pc \notin {"ok", "err", "na"}
        one(tag, pr) == B((IsTag(tag) /\ (bad(pr) \/ (pr.pc # "na" /\ tag # pr.pc))))
        S[i \in 0..NObj(d)] ==
            IF i = 0 THEN 0
            ELSE S[i - 1]
                 + one(r.nd[i], p.nd[i]) + one(r.img[i], p.img[i])
                 + B(IsTag(r.deref[i]) /\ r.deref[i] # p.deref[i])
                 + B(r.cont[i].t = "ok" /\ r.cont[i].ids # p.cont[i])
                 + B(IsTag(r.rsrc[i].t) /\ (r.rsrc[i].t # p.rsrc[i].t \/ (r.rsrc[i].t = "ok" /\ r.rsrc[i].ids # p.rsrc[i].ids)))
    IN one(r.outl, p.outl) + one(r.toc, p.toc) + S[NObj(d)]
       + B(r.pages.t = "ok" /\ (p.pages.pc # "ok" \/ r.pages.ids # p.pages.ids))

\* ---- the recorded chain families ------------------------------------------------------------------
FamWalker(q) ==
    CASE q \in {"get_page_resources", "get_page_fonts", "extract_text", "extract_text_chunks"} -> "rsrc"
      [] q = "get_outlines" -> "outl" [] q = "get_toc" -> "toc"
      [] q = "get_named_destinations" -> "nd" [] q = "dereference" -> "deref"
      [] OTHER -> ""
FamId(o) == IF o.q \in {"extract_text", "extract_text_chunks"} THEN 3 ELSE o.id      \* text extraction reads page 1 = object 3

\* first the walkers as the code is, then (regression of a repaired depth defect) the walkers without any budget
FamSig(rec, o) ==
    LET ww  == FamWalker(o.q)
        pr  == ChainOutcomeS(rec.fam, rec.len, ww, FamId(o), StackFrames)
        was == Old!ChainOutcomeS(rec.fam, rec.len, ww, FamId(o), StackFrames)
    IN IF ww # "" /\ o.kind = "crash" /\ pr.pc = "overflow" THEN pr.cls
       ELSE IF ww # "" /\ o.kind = "crash" /\ was.pc = "overflow" THEN was.cls
       ELSE o.q \o "." \o o.kind

\* a prediction both stack sizes agree on, else "unsure"
FamPred(rec, ww, id) ==
    LET a == ChainOutcomeS(rec.fam, rec.len, ww, id, StackFrames)
        b == ChainOutcomeS(rec.fam, rec.len, ww, id, StackFramesMax)
    IN IF a = b THEN a.pc ELSE "unsure"

FamDrift(rec) ==
    LET B(x) == IF x THEN 1 ELSE 0
        r == rec.res
        one(tag, p) == B(p # "unsure" /\ tag \in {"ok", "err", "crash"} /\ tag # (IF p = "overflow" THEN "crash" ELSE p))
    IN IF rec.fam \notin ChainFams THEN 0        \* families only the harness knows (annots, fontchain, length): totality only
       ELSE
       one(r.outl, FamPred(rec, "outl", 0)) + one(r.toc, FamPred(rec, "toc", 0))
       + one(r.nd, FamPred(rec, "nd", ChainHead)) + one(r.deref, FamPred(rec, "deref", ChainHead))
       + one(r.rsrc.t, FamPred(rec, "rsrc", 3))
       + B(r.rsrc.t = "ok" /\ r.rsrc.n # ChainRsrcN(rec.fam, rec.len))
       + B(r.cont.t = "ok" /\ r.cont.n # ChainContN(rec.fam, rec.len))
       + B(rec.fam # "pagekids" /\ r.pages.t = "ok" /\ r.pages.n # 1)

FamPBad(rec) ==
    LET E(q, i, ww) == IF FamPred(rec, ww, i) = "overflow"
                       THEN <<[q |-> q, id |-> i, pc |-> "overflow",
                               cls |-> ChainOutcomeS(rec.fam, rec.len, ww, i, StackFrames).cls]>> ELSE <<>>
    IN E("get_outlines", 0, "outl") \o E("get_toc", 0, "toc") \o E("get_named_destinations", ChainHead, "nd")
       \o E("get_page_resources", 3, "rsrc")

JudgeFam(rec) ==
    LET sigs == [j \in 1..Len(rec.obs) |-> FamSig(rec, rec.obs[j])]
        dr   == IF rec.ran THEN FamDrift(rec) ELSE 0
    IN [v     |-> IF Len(rec.obs) > 0 THEN "bad" ELSE IF dr > 0 THEN "ok-drift" ELSE "ok",
        sigs  |-> sigs,
        drift |-> dr,
        pbad  |-> FamPBad(rec),
        pwas  |-> <<>>]

JudgeDoc(rec) ==
    LET d    == rec.doc
        p    == Pred(d)
        sigs == [j \in 1..Len(rec.obs) |-> Sig(d, p, rec.obs[j], rec.via)]
        dr   == IF rec.ran THEN Drift(d, p, rec.res) ELSE 0
    IN [v     |-> IF Len(rec.obs) > 0 THEN "bad" ELSE IF dr > 0 THEN "ok-drift" ELSE "ok",
        sigs  |-> sigs,
        drift |-> dr,
        pbad  |-> PBad(d, p),
        pwas  |-> PBad(d, PredOld(d))]     \* calls the repaired defects would have broken (anti-vacuity of the document set)

Judge(rec) == IF rec.fam # "" THEN JudgeFam(rec) ELSE JudgeDoc(rec)

Init == l = 1
Next == /\ l <= Len(Recs)
        /\ PrintT(<<"VERDICT", ToJson([i |-> l] @@ Judge(Recs[l]))>>)
        /\ l' = l + 1
Spec == Init /\ [][Next]_l
Consumed == TLCGet("stats").diameter = Len(Recs) + 1
=============================================================================
