----------------------------- MODULE Trace_Dates -----------------------------
(* impl -> spec: every record is one observed call of lopdf's date conversions (harness c18):   *)
(*   ev = "fmt":   Object::from(<backend value for instant (day, sod) at offset off>) = s        *)
(*   ev = "parse": Object::string_literal(in).as_datetime().try_into::<backend type of p>()      *)
(*                 = (day, sod[, off]) or a failure                                              *)
(*   ev = "zfmt":  the same conversion inside a process whose local zone has a daylight-saving     *)
(*                 rule, after the earlier conversions of that process (history)                  *)
(* The declarative layer of Dates judges each record: a produced string must be Fmt / FmtUtc of  *)
(* the instant, a parsed string must give what Parse says it denotes.  The impl-shaped layer     *)
(* only reports drift.  cls is the class of the input (for narrow finding signatures).           *)
EXTENDS Dates, Json, IOUtils, TLC

Recs == ndJsonDeserialize(IOEnv.TRACE)

VARIABLE l

UtcTypes == {"chrono_utc", "jiff_timestamp"}

JudgeFmt(r) ==
    LET i    == [day |-> r.day, sod |-> r.sod]
        utc  == r.b \in UtcTypes
        expr == utc \/ Expressible(i, r.off)
        want == IF utc THEN FmtUtc(i) ELSE Fmt(i, r.off)
        got  == Parse(r.s)
    IN [v |-> IF ~InDomain(i, r.off) THEN "ok-outside-domain"
              ELSE IF r.st = "na" THEN "ok-na"              \* the backend's type cannot hold the value
              ELSE IF r.st = "env" THEN "ok-env"            \* process zone did not take the offset
              ELSE IF r.st = "panic" THEN "fmt-panic"
              \* wall clock in year 10000: no date string denotes (i, off); demanded: a date string of the same instant
              ELSE IF ~expr THEN (IF got.ok /\ got.day = i.day /\ got.sod = i.sod THEN "ok-inexpressible"
                                  ELSE "fmt-inexpressible")
              ELSE IF r.s = want THEN "ok" ELSE "fmt-mismatch",
        cls |-> <<r.b, IF utc THEN "utc" ELSE OffClass(r.off),
                  YearClass(IF utc THEN i.day ELSE LocalOf(i, r.off).day)>>]

JudgeParse(r) ==
    LET want   == Parse(r.in)
        c      == [day |-> r.cday, sod |-> r.csod]
        good(i, o) == want.ok /\ want.day = i.day /\ want.sod = i.sod /\ want.off = o
        \* the spec must agree with itself on strings that are the date string of the case
        self   == /\ (Expressible(c, r.coff) /\ r.in = Fmt(c, r.coff)) => good(c, r.coff)
                  /\ (r.in = FmtUtc(c)) => good(c, 0)
        beyond == want.day > r.hi_day \/ (want.day = r.hi_day /\ want.sod > r.hi_sod)
        wall   == Shift([day |-> want.day, sod |-> want.sod], want.off).day
        \* the code as it is: dev_h41 repaired by fix: 4d9b221; date-only by jiff needs a GMT entry (r.tzdb = "one":
        \* the child saw a zone database without one; "empty" makes jiff fall back to the machine's)
        impl   == ImplParseEnv(r.p, r.in, FALSE, TRUE, r.tzdb # "one")
    IN [v |-> IF ~self THEN "spec-inconsistent"
              ELSE IF ~want.ok THEN "ok-not-a-date-form"    \* nothing is demanded for other strings
              ELSE IF ~want.indom THEN "ok-outside-domain"
              ELSE IF beyond THEN "ok-na"                   \* the backend's type cannot hold the instant
              ELSE IF r.st = "env" THEN "ok-env"            \* no time zone database for jiff's "GMT"/"UTC"
              ELSE IF r.st = "panic" THEN "parse-panic"
              ELSE IF r.st # "ok" THEN "parse-fail"
              ELSE IF r.day # want.day \/ r.sod # want.sod THEN "parse-instant"
              ELSE IF r.hasoff /\ r.off # want.off THEN "parse-offset"
              ELSE IF ~impl.ok THEN "ok-drift" ELSE "ok",
        cls |-> IF want.ok THEN <<r.p, want.form, OffClass(want.off), YearClass(wall), r.tzdb>>
                ELSE <<r.p, "none", "none", "none", r.tzdb>>]

\* ev = "zfmt": one conversion inside a process whose local zone follows a daylight-saving rule (r.rule); the
\* records of one process (run) are consecutive, step 1 first.  h remembers the offset the run started with, so
\* that the class of a failing case says whether the zone's offset had changed since the first call of the process.
JudgeZ(r, hh) ==
    LET i    == [day |-> r.day, sod |-> r.sod]
        off  == ZoneOffset(r.rule, i)                     \* function of the instant and the rule only
        want == LocalString(r.rule, i)
        phase == IF r.step = 1 THEN "first" ELSE IF off = hh.off0 THEN "same" ELSE "changed"
    IN [v |-> IF r.step > 1 /\ hh.run # r.run THEN "trace-order"
              ELSE IF ~InDomain(i, off) THEN "ok-outside-domain"
              ELSE IF r.st = "na" THEN "ok-na"
              ELSE IF r.st = "env" THEN "ok-env"
              ELSE IF r.st = "panic" THEN "zfmt-panic"
              ELSE IF r.loff # off THEN "ok-env-zone"      \* the backend's own zone arithmetic gave another offset
              ELSE IF r.s = want THEN "ok" ELSE "zfmt-mismatch",
        cls |-> <<r.b, phase, OffClass(off)>>]

Judge(r, hh) == IF r.ev = "fmt" THEN JudgeFmt(r)
                ELSE IF r.ev = "parse" THEN JudgeParse(r)
                ELSE IF r.ev = "zfmt" THEN JudgeZ(r, hh)
                ELSE [v |-> "worker-crash", cls |-> <<"crash">>]

VARIABLE h          \* [run, off0]: the current process of zfmt records and the zone offset of its first conversion

Init == l = 1 /\ h = [run |-> -1, off0 |-> 0]
Next == /\ l <= Len(Recs)
        /\ LET r == Recs[l]
               j == Judge(r, h)
           IN /\ PrintT(<<"VERDICT", ToJson([i |-> l, v |-> j.v, cls |-> j.cls])>>)
              /\ h' = IF r.ev = "zfmt" /\ r.step = 1
                       THEN [run |-> r.run, off0 |-> ZoneOffset(r.rule, [day |-> r.day, sod |-> r.sod])]
                       ELSE h
        /\ l' = l + 1
Spec == Init /\ [][Next]_<<l, h>>
Consumed == TLCGet("stats").diameter = Len(Recs) + 1
=============================================================================
