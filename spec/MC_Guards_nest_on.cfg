SPECIFICATION Spec
CONSTANTS
  Model = "nest"
  N = 7
  MaxB = 2
  GuardOn = TRUE
INVARIANTS Variant Refines
PROPERTIES Terminates
CHECK_DEADLOCK FALSE
