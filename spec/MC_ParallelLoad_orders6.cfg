SPECIFICATION Spec
CONSTANTS
  Workers = {1, 2, 3}
  Containers = {1, 2, 3, 4, 5, 6}
  Nums = {}
  DevFirstWins = FALSE
  HdrChoices <- HdrIdentity
  DevTieByCompletion = FALSE
  DeferU = {}
  DevStopAtFirstFailure = FALSE
  DropU = {}
  Emit = TRUE
INVARIANTS Deterministic EmitInv
CHECK_DEADLOCK FALSE
