SPECIFICATION Spec
CONSTANTS
  Workers = {1, 2}
  Containers = {1}
  Nums = {4, 5, 6}
  DevFirstWins = FALSE
  HdrChoices <- HdrIdentity
  DevTieByCompletion = FALSE
  DeferU = {4, 5, 6}
  DevStopAtFirstFailure = FALSE
  DropU = {}
  Emit = FALSE
INVARIANTS Deterministic LatestWins AllFilled
CHECK_DEADLOCK FALSE
