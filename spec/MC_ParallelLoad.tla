--------------------------- MODULE MC_ParallelLoad ---------------------------
(* Exhaustive exploration of ParallelLoad: every file over the bounded universe, every           *)
(* interleaving of the workers.  With Emit = TRUE each complete behaviour's block order is       *)
(* printed: these are the completion orders the harness forces on the real loader through hook   *)
(* H1 (verif_hooks::force_completion_order).                                                      *)
EXTENDS ParallelLoad, TLC, Json

CONSTANT Emit

HdrIdentity == {[c \in Containers |-> c]}
\* every assignment of header numbers, including two or three object streams that claim the same number
HdrAll == [Containers -> Containers]

Init == PLInit
TakeS == \E w \in Workers, e \in Entries : Take(w, e)
FinishS == \E w \in Workers : Finish(w)
MergeS == Merge
Next == TakeS \/ FinishS \/ MergeS
Spec == Init /\ [][Next]_plvars

\* position of each container in ascending order (0-based), so that an order is a permutation of 0..n-1
Rank(c) == Cardinality({d \in Containers : d < c})

EmitInv ==
    (Emit /\ pc = "done") =>
        PrintT(<<"REPLAY", ToJson([n |-> Cardinality(Containers), order |-> [i \in 1..Len(blocks) |-> Rank(blocks[i])]])>>)

\* witnesses (must be violated): a run where two containers hold the same number and finish out of order
WitnessRace == ~(pc = "done" /\ \E c, d \in Containers : c < d /\ members[c] \cap members[d] # {}
                    /\ \E i, j \in 1..Len(blocks) : i < j /\ blocks[i] = d /\ blocks[j] = c)

\* witness (must be violated): a filter that removes an object the plain load has
WitnessFilter == ~(pc = "done" /\ \E n \in DOMAIN PlainResult : n \notin DOMAIN result)
=============================================================================
