----------------------------- MODULE MC_Syntax -----------------------------
(* The specification's own consistency proof at object level: whatever the Producer spells,    *)
(* the StrictReader reads back as the value the Producer started from (RoundTrip), for every    *)
(* value of a test universe built from the critical alphabet and every style / separator.       *)
(* With Emit = TRUE completed behaviours are printed for replay into lopdf's object parser.     *)
EXTENDS SyntaxProducer, TLC, Json

\* TLC orders record fields by first mention while parsing (root module first): the kind field `k` must come
\* before the payload fields so that object values of different kinds are unequal without their payloads
\* ever being compared (a function-valued `v` against a sequence-valued one is a TLC evaluation error).
KindFirst_MC_Syntax(o) == <<o.k, o.neg, o.v, o.w>>

CONSTANTS Universe,    \* "atoms" | "nested"
          Emit

VARIABLE src

vars == <<pvars, src>>

\* the critical alphabet of DESIGN 3.1
Sigma == {40, 41, 92, 35, 47, 60, 62, 91, 93, 37, 32, 13, 10, 0, 48, 56, 110, 65, 127, 128, 255}
Seqs1 == {<<>>} \cup {<<a>> : a \in Sigma}
Seqs2 == Seqs1 \cup {<<a, b>> : a \in Sigma, b \in Sigma}

Ints == {OInt(FALSE, <<0>>), OInt(FALSE, <<7>>), OInt(TRUE, <<1, 2>>), OInt(FALSE, <<9, 2, 2, 3, 3, 7, 2, 0, 3, 6, 8, 5, 4, 7, 7, 5, 8, 0, 7>>)}
Reals == {OReal(FALSE, <<0>>, <<5>>), OReal(TRUE, <<3>>, <<>>), OReal(FALSE, <<1, 0>>, <<0, 2>>), OReal(TRUE, <<0>>, <<0, 0, 1>>)}

Atoms ==
    {ONull, OBool(TRUE), OBool(FALSE), ORef(1, 0), ORef(12, 65535)} \cup Ints \cup Reals
    \cup {OName(s) : s \in Seqs2} \cup {OStr(s) : s \in Seqs2}

\* a few atoms of every kind for nesting
Few == {ONull, OBool(TRUE), OInt(TRUE, <<1, 2>>), OReal(FALSE, <<0>>, <<5>>),
        OName(<<65>>), OName(<<>>), OStr(<<40>>), OStr(<<65, 13>>), ORef(1, 0)}
Keys == {<<65>>, <<>>, <<47, 35>>}

Containers1 ==
    {OArr(<<>>), ODict(EmptyMap)}
    \cup {OArr(<<a>>) : a \in Few}
    \cup {OArr(<<a, b>>) : a \in Few, b \in Few}
    \cup {ODict(key :> a) : key \in Keys, a \in Few}
    \cup {ODict((<<65>> :> a) @@ (<<66, 0>> :> b)) : a \in Few, b \in Few}

Small == {ONull, OInt(FALSE, <<7>>), OName(<<65>>), OStr(<<41>>), ORef(1, 0), OReal(FALSE, <<0>>, <<5>>)}
C1small == {OArr(<<>>), ODict(EmptyMap)} \cup {OArr(<<a, b>>) : a \in Small, b \in Small} \cup {ODict(<<75>> :> a) : a \in Small}
Containers2 ==
    {OArr(<<c, a>>) : c \in C1small, a \in Small} \cup {OArr(<<a, c>>) : c \in C1small, a \in Small}
    \cup {ODict((<<75>> :> c) @@ (<<76>> :> a)) : c \in C1small, a \in Small}

Values == IF Universe = "atoms" THEN Atoms
          ELSE IF Universe = "nested1" THEN Containers1
          ELSE Containers2

Init ==
    /\ src \in Values
    /\ out = <<>> /\ todo = <<Val(src)>> /\ offs = EmptyMap /\ outer = <<>> /\ moffs = <<>>
    /\ plan = [doc |-> [revs |-> <<>>], k |-> [junk |-> 0], xrefoff |-> 0]

A_EmitTok == EmitTok /\ UNCHANGED src
A_EmitRaw == EmitRaw /\ UNCHANGED src
A_XNull == XNull /\ UNCHANGED src
A_XBool == XBool /\ UNCHANGED src
A_XInt == XInt /\ UNCHANGED src
A_XReal == XReal /\ UNCHANGED src
A_XName == XName /\ UNCHANGED src
A_XLit == XLit /\ UNCHANGED src
A_XHex == XHex /\ UNCHANGED src
A_XRef == XRef /\ UNCHANGED src
A_XArr == XArr /\ UNCHANGED src
A_XDict == XDict /\ UNCHANGED src

Next == A_EmitTok \/ A_EmitRaw \/ A_XNull \/ A_XBool \/ A_XInt \/ A_XReal \/ A_XName \/ A_XLit \/ A_XHex \/ A_XRef \/ A_XArr \/ A_XDict

Spec == Init /\ [][Next]_vars

Done == todo = <<>>

RoundTrip ==
    Done => LET r == ReadObject(out) IN r.ok /\ r.val = src

EmitInv ==
    (Emit /\ Done) => PrintT(<<"REPLAY", ToJson([bytes |-> out, src |-> src])>>)

\* symmetry-free state constraint: none needed, behaviours are finite
=============================================================================
