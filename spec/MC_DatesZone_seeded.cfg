SPECIFICATION Spec
CONSTANTS
  Thorough = FALSE
  Dev_cache = TRUE
  OnlyFixed = FALSE
  Emit = FALSE
INVARIANTS LocalRefines
CHECK_DEADLOCK FALSE
