---------------------------- MODULE RenumberSys ----------------------------
(* renumber_objects_with as a state machine: one action per loop iteration / phase of the call  *)
(* in src/processor.rs.  The step operators (and both layers) come from Renumber.               *)
EXTENDS Renumber

\* deviation switches: FALSE = the code as it is since the fix: commits; TRUE = the repaired defect
CONSTANTS DevChain,     \* TRUE = bookmark targets rewritten pair by pair (C10:bookmark.chain)
          DevDang,      \* TRUE = dangling references are left alone (C10:dangling.capture, .pageorder)
\* deviations present at HEAD (known findings): TRUE = the code as it is, FALSE = as the proposed fixes repair it
          DevDup,       \* TRUE = a page listed twice takes part in the page-order pass twice (C10:pageorder.dupkids)
          DevClash,     \* TRUE = pages re-keyed to <<number of slot, own generation>> (C10:pageorder.numclash)
          DevBmDang,    \* TRUE = a bookmark target naming no object is left alone (C10:bookmark.dangling.capture)
          DevReach,     \* TRUE = references are rewritten only in what the trailer reaches (C10:bookmark.target.unreachable)
          DevZero,      \* TRUE = renumbering from 0 is not noticed: (0,_) sentinels can be captured (C10:start0.capture)
          DevFit,       \* "panic" / "wrap" = the counter is advanced past the last object (C10:panic.exactfit,
                        \*   C10:max_id.exactfit); "none" = the last number handed out is remembered
          Limit         \* the largest object number (stand-in for u32::MAX; 0 = out of sight)

DevRec == [Dev(DevChain, DevDang, DevDup, DevClash, DevBmDang)
             EXCEPT !.reach = DevReach, !.zero = DevZero, !.fit = DevFit, !.limit = Limit]

VARIABLES before,   \* the document the call started from (with its declarative page sequence)
          start,    \* starting_id
          s,        \* running state (Renumber!ImplInit)
          pc,       \* "build*" | "begin" | "ppair" | "dplan" | "dpair" | "done"
          i,        \* loop index of the current pass
          pg, srt,  \* page pass: pages in page order / sorted by id
          ord,      \* dense pass: keys of `replace` in BTreeMap order
          live      \* ids that existed when the current pass began (only read when DevDang = FALSE)

rvars == <<before, start, s, pc, i, pg, srt, ord, live>>

\* let mut page_order = self.page_iter()...; sort; needs_ordering
Begin ==
    /\ pc = "begin"
    /\ LET p == PageOrderOf(s, DevDup) IN
       /\ pg' = p /\ srt' = SortedPages(p)
       /\ pc' = IF NeedsOrdering(p) THEN "ppair" ELSE "dplan"
    /\ i' = 1 /\ live' = DOMAIN s.objs
    /\ UNCHANGED <<before, start, s, ord>>

\* for (old, new) in pages.iter().zip(page_order) { remove/insert } (DevChain: ; renumber_bookmarks per pair)
PagePair ==
    /\ pc = "ppair" /\ i <= Len(pg)
    /\ s' = PagePairStep(s, pg[i], srt[i], DevChain, DevClash)
    /\ i' = i + 1
    /\ UNCHANGED <<before, start, pc, pg, srt, ord, live>>

\* remap_bookmarks(&replace); re-insert; traverse_objects(action); replace.clear()
PageFinish ==
    /\ pc = "ppair" /\ i > Len(pg)
    /\ s' = FinishPass(s, live, DevChain, DevDang, DevBmDang, PageOpt(DevRec))
    /\ pc' = "dplan"
    /\ UNCHANGED <<before, start, i, pg, srt, ord, live>>

\* ids sorted; replace filled with every id whose number is not already the new one
DensePlan ==
    /\ pc = "dplan"
    /\ LET r == DenseReplace(s.objs, start) IN
       /\ s' = [s EXCEPT !.replace = r]
       /\ ord' = SetToSortSeq(DOMAIN r, IdLess)
    /\ live' = DOMAIN s.objs
    /\ i' = 1 /\ pc' = "dpair"
    /\ UNCHANGED <<before, start, pg, srt>>

\* for (old, new) in &replace { remove/collect } (DevChain: ; renumber_bookmarks per pair)
DensePair ==
    /\ pc = "dpair" /\ i <= Len(ord)
    /\ s' = DensePairStep(s, ord[i], DevChain)
    /\ i' = i + 1
    /\ UNCHANGED <<before, start, pc, pg, srt, ord, live>>

\* remap_bookmarks(&replace); re-insert; traverse_objects(action); self.max_id = new_id.saturating_sub(1)
DenseFinish ==
    /\ pc = "dpair" /\ i > Len(ord)
    /\ s' = SetMaxId(FinishPass(s, live, DevChain, DevDang, DevBmDang, DenseOpt(DevRec, start, live)), start, Cardinality(live), DevRec)
    /\ pc' = "done"
    /\ UNCHANGED <<before, start, i, pg, srt, ord, live>>

RenumberNext == Begin \/ PagePair \/ PageFinish \/ DensePlan \/ DensePair \/ DenseFinish

After == DocOfState(s)
=============================================================================
