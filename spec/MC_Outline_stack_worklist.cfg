SPECIFICATION Spec
CONSTANTS
  MaxB = 3
  NPs = {1}
  MaxPost = 0
  Reserve = TRUE
  Titles <- TitleClasses
  Stack = 2
  WorkList = TRUE
  DestSpellings = {"none"}
  FollowRefs = FALSE
  IdLimits = {1000000}
  CheckedIds = FALSE
  Emit = FALSE
INVARIANTS RefinesForest RefinesAdjust RefinesFresh RefinesLinks RefinesCarries RefinesToc Verdict NoAbort RefusedOk EmitInv
PROPERTIES Reserved
CHECK_DEADLOCK FALSE
