SPECIFICATION Spec
CONSTANTS
  Thorough = TRUE
  Mut = "none"
  Dev_h12 = FALSE
  Dev_h13 = FALSE
  Dev_ownerAbsent = FALSE
  Dev_length = FALSE
  Dev_tableCache = FALSE
  Dev_identity = FALSE
  Dev_emBelowV4 = FALSE
  Dev_encDirect = FALSE
  Dev_sig = FALSE
  Dev_cryptNoParams = FALSE
  Emit = TRUE
INVARIANTS AuthUserSound AuthUserComplete AuthOwnerSound AuthOwnerComplete KeyAgreement NoKeyWithoutAuth Plaintext Shapes ImplDictRefines ImplKeyRefines ImplItemRefines ImplOpens ImplRejects LengthAgreement ImplLengthRefines ImplItemClasses FormAgreement ImplFormRefines ImplPrepRefines PrepMatters PrepIsFunction EmitInv
CHECK_DEADLOCK FALSE
