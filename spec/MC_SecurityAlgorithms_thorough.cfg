SPECIFICATION Spec
CONSTANTS
  Thorough = TRUE
  Mut = "none"
  Dev_h12 = FALSE
  Dev_h13 = TRUE
  Dev_ownerAbsent = TRUE
  Emit = TRUE
INVARIANTS AuthUserSound AuthUserComplete AuthOwnerSound AuthOwnerComplete KeyAgreement NoKeyWithoutAuth Plaintext Shapes ImplDictRefines ImplKeyRefines ImplItemRefines ImplOpens ImplRejects EmitInv
CHECK_DEADLOCK FALSE
