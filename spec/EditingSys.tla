----------------------------- MODULE EditingSys -----------------------------
(* The editing life-cycle as a state machine: ONE ACTION PER PUBLIC CALL of lopdf.  A step runs  *)
(* the impl-shaped call (Editing!Impl with the switches Dev) on the current document, lets the    *)
(* declarative layer judge the step (Editing!Judge: FreshIds, Frame, NoStaleRef, PruneExact,      *)
(* CountsOk, ContentOk, ResMonotone, MaxIdOk and the prescribed post-state) and carries the ghost *)
(* state.  Arguments are drawn from the live identifiers of the current document.                 *)
(*                                                                                                *)
(*   doc    the document (objects, trailer, max_id, pending bookmark targets)                     *)
(*   aux    Editing!Aux(doc): reachable set, page sequence, content ... (a function of doc)     *)
(*   gh     ghost: issued ids, content each page must show                                        *)
(*   n      number of calls made                                                                  *)
(*   fails  clauses the LAST step violated (tags of Editing!Judge)                                *)
(*   hist   history of calls, results and verdicts (printed for replay; hidden from the           *)
(*          fingerprint by the VIEW of the MC module)                                             *)
EXTENDS Editing

CONSTANTS Dev,          \* switches of the impl-shaped layer (Editing!DevAsIs / DevRepaired)
          Ops,          \* names of the calls offered
          ByteStrings,  \* byte strings offered as new page content
          NumSeqs,      \* page-number sequences offered to delete_pages
          NewObjs(_),   \* NewObjs(doc): objects offered to add_object / set_object
          MaxDepth

VARIABLES doc, aux, gh, n, fails, hist

svars == <<doc, aux, gh, n, fails, hist>>

Step(c) ==
    /\ n < MaxDepth /\ c.op \in Ops /\ Pre(doc, aux, gh, c)
    /\ LET r == Impl(doc, c, Dev)
           B == Aux(r.doc)
           j == Judge(doc, aux, gh, c, r.res, r.doc, B)
       IN /\ doc' = r.doc
          /\ aux' = B
          /\ gh' = j.gh
          /\ fails' = j.tags
          /\ hist' = Append(hist, [c |-> c, res |-> r.res, v |-> j.tags])
    /\ n' = n + 1

Streams(d)   == {id \in DOMAIN d.objs : d.objs[id].k = "stream"}
AnnotIds(d)  == UNION {LET a == Get(d.objs[p].v, "Annots") IN IF a.k = "arr" THEN RangeOf(RefIds(a.v)) ELSE {} : p \in RangeOf(aux.pp)}
Deletable(d) == DOMAIN d.objs \ aux.prot
Pages_       == RangeOf(aux.pp)

NewObjectId == Step(Call("NewObjectId"))
AddObject   == \E o \in NewObjs(doc) : Step([Call("AddObject") EXCEPT !.o = o])
Replace     == \E id \in (DOMAIN doc.objs \cup gh.issued) \ (aux.prot \cup Streams(doc)), o \in NewObjs(doc) :
                  Step([Call("Replace") EXCEPT !.id = id, !.o = o])
DeleteObject == \E id \in Deletable(doc) : Step([Call("DeleteObject") EXCEPT !.id = id])
RemoveAnnot == \E id \in AnnotIds(doc) : Step([Call("RemoveAnnot") EXCEPT !.id = id])
Prune       == Step(Call("Prune"))
DeletePages == \E nums \in NumSeqs : Step([Call("DeletePages") EXCEPT !.nums = nums])
Renumber    == Step(Call("Renumber"))
Compress    == Step(Call("Compress"))
Decompress  == Step(Call("Decompress"))
AddPageContents   == \E p \in Pages_, b \in ByteStrings : Step([Call("AddPageContents") EXCEPT !.id = p, !.b = b])
ChangePageContent == \E p \in Pages_, b \in ByteStrings : Step([Call("ChangePageContent") EXCEPT !.id = p, !.b = b])
ChangeContentStream == \E id \in Streams(doc), b \in ByteStrings : Step([Call("ChangeContentStream") EXCEPT !.id = id, !.b = b])
GetOrCreateResources == \E p \in Pages_ : Step([Call("GetOrCreateResources") EXCEPT !.id = p])
AddXObject  == \E p \in Pages_ : Step([Call("AddXObject") EXCEPT !.id = p, !.name = "X1", !.x = MaxOf(Streams(doc))])
AddGraphicsState == \E p \in Pages_ : Step([Call("AddGraphicsState") EXCEPT !.id = p, !.name = "G1", !.x = MaxOf(DOMAIN doc.objs)])
BuildOutline == Step(Call("BuildOutline"))
Save        == \E fmt \in {"table", "stream"} : Step([Call("Save") EXCEPT !.fmt = fmt])
SaveLoad    == \E fmt \in {"table"} : Step([Call("SaveLoad") EXCEPT !.fmt = fmt])

Calls == NewObjectId \/ AddObject \/ Replace \/ DeleteObject \/ RemoveAnnot \/ Prune \/ DeletePages \/ Renumber
         \/ Compress \/ Decompress \/ AddPageContents \/ ChangePageContent \/ ChangeContentStream
         \/ GetOrCreateResources \/ AddXObject \/ AddGraphicsState \/ BuildOutline \/ Save \/ SaveLoad
=============================================================================
