----------------------------- MODULE EditingSys -----------------------------
(* The editing life-cycle as a state machine: ONE ACTION PER PUBLIC CALL of lopdf.  A step runs  *)
(* the impl-shaped call (Editing!Impl with the switches dev) on the current document, lets the    *)
(* declarative layer judge the step (Editing!Judge: FreshIds, Frame, NoStaleRef, PruneExact,      *)
(* CountsOk, ContentOk, ResMonotone, MaxIdOk and the prescribed post-state) and carries the ghost *)
(* state.  Arguments are drawn from the live identifiers of the current document.                 *)
(*                                                                                                *)
(*   dev    switches of the impl-shaped layer (Editing!DevAsIs / DevSeeded), fixed per behaviour   *)
(*   doc    the document (objects, trailer, max_id, pending bookmark targets)                     *)
(*   aux    Editing!Aux(doc): reachable set, page sequence, content ... (a function of doc)     *)
(*   gh     ghost: issued ids, content each page must show                                        *)
(*   n      number of calls made                                                                  *)
(*   fails  clauses the LAST step violated (tags of Editing!Judge)                                *)
(*   hist   history of calls, results and verdicts (printed for replay; hidden from the           *)
(*          fingerprint by the VIEW of the MC module)                                             *)
EXTENDS Editing

CONSTANTS Ops,          \* names of the calls offered
          ByteStrings,  \* byte strings offered as new page content
          NumSeqs,      \* page-number sequences offered to delete_pages
          NewObjs(_),   \* NewObjs(doc): objects offered to add_object / set_object
          MaxDepth

VARIABLES dev, doc, aux, gh, n, fails, hist

svars == <<dev, doc, aux, gh, n, fails, hist>>

Enabled(c) == n < MaxDepth /\ c.op \in Ops /\ Pre(doc, aux, gh, c)

Step(c) ==
    /\ Enabled(c)
    /\ LET r == Impl(doc, c, dev, gh.ops)
           B == Aux(r.doc)
           j == Judge(doc, aux, gh, c, r.res, r.doc, B, ObserveM(doc, c, r.doc, B, dev))
       IN /\ doc' = r.doc
          /\ aux' = B
          /\ gh' = j.gh
          /\ fails' = j.tags
          /\ hist' = Append(hist, [c |-> c, res |-> r.res, v |-> j.tags])
    /\ n' = n + 1
    /\ UNCHANGED dev

Streams(d)   == {id \in DOMAIN d.objs : d.objs[id].k = "stream"}
AnnotIds(d)  == UNION {LET a == Get(d.objs[p].v, "Annots") IN IF a.k = "arr" THEN RangeOf(RefIds(a.v)) ELSE {} : p \in RangeOf(aux.pp)}
Pages_       == RangeOf(aux.pp)

\* the arguments offered to each call in the current state
Cands(op) ==
    LET C == Call(op) IN
    CASE op = "AddObject"    -> {[C EXCEPT !.o = o] : o \in NewObjs(doc)}
      [] op = "Replace"      -> {[C EXCEPT !.id = id, !.o = o] :
                                   \* an existing id, an issued one, or a number nobody uses yet (above max_id)
                                   id \in ((DOMAIN doc.objs \cup gh.issued) \ (aux.prot \cup Streams(doc))) \cup {doc.max_id + 1},
                                   o \in NewObjs(doc)}
      [] op = "DeleteObject" -> {[C EXCEPT !.id = id] : id \in DOMAIN doc.objs \ aux.prot}
      [] op = "RemoveAnnot"  -> {[C EXCEPT !.id = id] : id \in AnnotIds(doc)}
      [] op = "DeletePages"  -> {[C EXCEPT !.nums = nums] : nums \in NumSeqs}
      [] op \in {"AddPageContents", "ChangePageContent"} -> {[C EXCEPT !.id = p, !.b = b] : p \in Pages_, b \in ByteStrings}
      [] op = "AddToPageContent" -> {[C EXCEPT !.id = p, !.ops = <<TokSave, TokRestore>>] : p \in Pages_}
      [] op = "InsertImage"      -> {[C EXCEPT !.id = p, !.nums = <<2, 3, 4, 5>>,
                                               !.o = StreamO([Type |-> NameO("XObject"), Subtype |-> NameO("Image")], <<1, 2>>, FALSE)]
                                     : p \in Pages_}
      [] op = "InsertFormObject" -> {[C EXCEPT !.id = p,
                                               !.o = StreamO([Type |-> NameO("XObject"), Subtype |-> NameO("Form")], <<90, 10>>, FALSE)]
                                     : p \in Pages_}
      [] op = "ChangeContentStream" -> {[C EXCEPT !.id = id, !.b = b] : id \in Streams(doc), b \in ByteStrings}
      \* the resource calls on the Document and (fmt = "inc") their twins on an IncrementalDocument made from it
      [] op = "GetOrCreateResources" -> {[C EXCEPT !.id = p, !.fmt = f] : p \in Pages_, f \in {"", "inc"}}
      [] op = "AddXObject"   -> {[C EXCEPT !.id = p, !.name = "X1", !.x = MaxOf(Streams(doc)), !.fmt = f] : p \in Pages_, f \in {"", "inc"}}
      [] op = "AddGraphicsState" -> {[C EXCEPT !.id = p, !.name = "G1", !.x = MaxOf(DOMAIN doc.objs), !.fmt = f] : p \in Pages_, f \in {"", "inc"}}
      [] op = "Save"         -> {[C EXCEPT !.fmt = f] : f \in {"table", "stream"}}
      [] op = "SaveLoad"     -> {[C EXCEPT !.fmt = "table"]}
      \* renumber_objects() = start 1; a start inside the numbers in use; a start above all of them
      [] op = "Renumber"     -> {[C EXCEPT !.x = st] : st \in {1, 2, doc.max_id + 1}}
      [] OTHER               -> {C}      \* NewObjectId Prune Compress Decompress BuildOutline

Do(op) == \E c \in Cands(op) : Step(c)

\* one action per public call
NewObjectId          == Do("NewObjectId")
AddObject            == Do("AddObject")
Replace              == Do("Replace")
DeleteObject         == Do("DeleteObject")
RemoveAnnot          == Do("RemoveAnnot")
Prune                == Do("Prune")
DeletePages          == Do("DeletePages")
Renumber             == Do("Renumber")
Compress             == Do("Compress")
Decompress           == Do("Decompress")
AddPageContents      == Do("AddPageContents")
ChangePageContent    == Do("ChangePageContent")
ChangeContentStream  == Do("ChangeContentStream")
GetOrCreateResources == Do("GetOrCreateResources")
AddXObject           == Do("AddXObject")
AddGraphicsState     == Do("AddGraphicsState")
BuildOutline         == Do("BuildOutline")
AddToPageContent     == Do("AddToPageContent")
InsertImage          == Do("InsertImage")
InsertFormObject     == Do("InsertFormObject")
Save                 == Do("Save")
SaveLoad             == Do("SaveLoad")

AllOps == {"NewObjectId", "AddObject", "Replace", "DeleteObject", "RemoveAnnot", "Prune", "DeletePages", "Renumber",
           "Compress", "Decompress", "AddPageContents", "ChangePageContent", "ChangeContentStream",
           "GetOrCreateResources", "AddXObject", "AddGraphicsState", "BuildOutline", "Save", "SaveLoad",
           "AddToPageContent", "InsertImage", "InsertFormObject"}
=============================================================================
