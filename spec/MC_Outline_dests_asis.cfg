SPECIFICATION Spec
CONSTANTS
  MaxB = 2
  NPs = {1}
  MaxPost = 0
  Reserve = TRUE
  Titles <- TitleClasses
  Stack = 64
  WorkList = FALSE
  DestSpellings = {"none", "tree-direct", "kids-ref", "names-ref", "d-ref", "value-array-ref", "old-direct", "old-names-key", "old-refs"}
  FollowRefs = FALSE
  IdLimits = {1000000}
  CheckedIds = FALSE
  Emit = FALSE
INVARIANTS RefinesToc
CHECK_DEADLOCK FALSE
