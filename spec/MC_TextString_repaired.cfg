SPECIFICATION Spec
CONSTANTS
  Reps <- RepsQuick
  MaxLen = 3
  RawAlphabet <- RawBytes
  RawLen = 3
  RawExtra <- RawLong
  Dev <- NoDevs
  Emit = FALSE
INVARIANTS TypeOK TextRT_Decl Utf8Too_Decl Codecs_Decl AsciiStays FunctionForm Refines Repaired Distinct
CHECK_DEADLOCK FALSE
