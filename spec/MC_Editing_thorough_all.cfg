SPECIFICATION Spec
CONSTANTS
  Devs <- DevBoth
  Ops <- AllOps
  ByteStrings <- BytesQuick
  NumSeqs <- NumsQuick
  NewObjs <- MCNewObjs
  InheritBound <- MCInheritBound
  MaxDepth = 3
  Starts <- StartsAll3
  Allowed = {"resources.shadow.incremental"}
  Emit = TRUE
  EmitMod = 4000
  EmitModV = 400
VIEW View
INVARIANTS Refines StartOk EmitViolations
CHECK_DEADLOCK FALSE
