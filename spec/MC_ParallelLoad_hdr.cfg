SPECIFICATION Spec
CONSTANTS
  Workers = {1, 2}
  Containers = {1, 2, 3}
  Nums = {4}
  DevFirstWins = FALSE
  HdrChoices <- HdrAll
  DevTieByCompletion = FALSE
  DeferU = {}
  DevStopAtFirstFailure = FALSE
  DropU = {}
  Emit = FALSE
INVARIANTS Deterministic LatestWins
CHECK_DEADLOCK FALSE
