---------------------------- MODULE Gen_Content ----------------------------
(* spec -> impl generator for C14: operation lists made by the harness from gen.rs objects       *)
(* (every direct kind nested arbitrarily, hostile bytes in names, strings and keys; file-side     *)
(* values) are read from IOEnv.CASES, the Producer of MC_Content spells each with every lexical   *)
(* freedom (TLC simulation), the StrictReader must read the bytes back as the operations          *)
(* (RoundTrip) and each completed content stream is printed for lopdf's Content::decode.          *)
EXTENDS MC_Content, IOUtils

\* TLC orders record fields by first mention while parsing (root module first): the kind field `k` must come
\* before the payload fields so that object values of different kinds are unequal without their payloads
\* ever being compared (a function-valued `v` against a sequence-valued one is a TLC evaluation error).
KindFirst_Gen_Content(o) == <<o.k, o.neg, o.v, o.w>>

FileCases ==
    LET js == ndJsonDeserialize(IOEnv.CASES)
    IN {[ops |-> OpsOf(js[i].ops), idws |-> js[i].idws, free |-> js[i].free, ord |-> 0] : i \in 1..Len(js)}

GInit == InitWith(FileCases)
GSpec == GInit /\ [][Next]_vars
=============================================================================
