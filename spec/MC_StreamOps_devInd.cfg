SPECIFICATION Spec
CONSTANTS
  MaxSteps = 2
  DevAvg = FALSE
  DevArr = FALSE
  DevStale = FALSE
  DevEmpty = FALSE
  Disturbs = FALSE
  DevRows = FALSE
  DevInd = TRUE
  DevDocInd = FALSE
INVARIANTS LengthInv StepOKModKnown
CHECK_DEADLOCK FALSE
