---------------------- MODULE Trace_SecurityAlgorithms ----------------------
(* impl -> spec for C06: every record is one comparison made by harness/src/bin/c06.rs between      *)
(* lopdf and the interpreter of the terms of SecurityAlgorithms.  The spec maps each record to the  *)
(* algorithm / term it instantiates, decides with the DECLARATIVE layer what was to be expected     *)
(* (which password opens: Canon; which items are encrypted: IsoSubject; how much of U is defined:    *)
(* UCmpLen; the value of P: PValue; the shape of the Encrypt dictionary) and classifies a mismatch:   *)
(* the verdict is "ok..." or the finding signature (narrow class of the failing case).             *)
(*                                                                                                *)
(*  dir = "V" (lopdf wrote, the reference recomputes and reads):                                    *)
(*    ev = "dict"  projection d of the Encrypt dictionary lopdf produced, off = permission bits off  *)
(*    ev = "obs"   obs in O U UE OE Perms fk objkey ct (writer side, random parts substituted),      *)
(*                 r.auth r.fk r.perms.ok pt (independent reader, role = user | owner);              *)
(*                 n comparisons of item kind `kind`, bad of them differ                            *)
(*    ev = "saved" the saved file carries the same ciphertext (st)                                  *)
(*    ev = "crash" lopdf failed to encrypt                                                          *)
(*  dir = "G" (the reference wrote, lopdf reads):                                                   *)
(*    ev = "open"  password try on a document with passwords user / owner (segments as in            *)
(*                 MC_SecurityAlgorithms): authU / authO (authenticate_*_password), res of decrypt    *)
(*                 (ok | err | panic | auto = the loader decrypted with the empty password),          *)
(*                 fk = lopdf's file key eq | ne | na, bad = kinds of items whose plaintext differs;   *)
(*                 dlen = the Length entry of the Encrypt dictionary (-1 none), canonOpens = the same  *)
(*                 attempt succeeds on the canonical document (CanonLength, form "canon", no optional     *)
(*                 content); form = the form of the dictionary (Forms), feature = optional content       *)
(*    ev = "env"   lopdf's writer / loader did not transport the document (not judged)               *)
(*  every record: hist = the predefined one-byte encodings the recording process converted text to     *)
(*  (Document::encode_text) before the judged computation, in call order                               *)
EXTENDS SecurityAlgorithms, Json, IOUtils, TLC

Recs == ndJsonDeserialize(IOEnv.TRACE)

VARIABLE l

PwOf(segs) == Pw([i \in 1..Len(segs) |-> Seg(segs[i].id, segs[i].len)])
PwE == Pw(<<>>)
PwBytes(segs) == LET F[i \in 0..Len(segs)] == IF i = 0 THEN 0 ELSE F[i - 1] + segs[i].len IN F[Len(segs)]
\* the 127-byte cut of Algorithm 2.A (b) falls inside a multi-byte character of the password (split = 1 on the
\* 95-byte segment, see MC_SecurityAlgorithms!SplitSegs)
SplitAtCut(segs) == Len(segs) >= 3 /\ segs[2].split = 1
\* a password with a character whose code in the encoding the process converted text to FIRST differs from its
\* PDFDocEncoding code (hist = the one-byte encodings used before the judged computation, in call order)
SegsSensitive(e, segs) == \E i \in 1..Len(segs) : TableSensitive(e, segs[i].txt)
HistoryClass(r, pws) == r.cfg.R <= 4 /\ Len(r.hist) > 0 /\ r.hist[1] \in OneByteEncodings \ {"PDFDoc"}
                        /\ \E k \in 1..Len(pws) : SegsSensitive(r.hist[1], pws[k])
RS(r) == "R" \o ToString(r.cfg.R)

AlgOf(obs, R) ==
    CASE obs = "O"  -> IF R <= 4 THEN "Algorithm 3" ELSE "Algorithm 9"
      [] obs = "OE" -> "Algorithm 9"
      [] obs = "U"  -> IF R = 2 THEN "Algorithm 4" ELSE IF R <= 4 THEN "Algorithm 5" ELSE "Algorithm 8"
      [] obs = "UE" -> "Algorithm 8"
      [] obs = "Perms" -> "Algorithm 10"
      [] obs = "fk" -> IF R <= 4 THEN "Algorithm 2" ELSE "file encryption key (input)"
      [] obs = "objkey" -> IF R <= 4 THEN "Algorithm 1 (a)-(d)" ELSE "Algorithm 1.A"
      [] obs = "ct" -> IF R <= 4 THEN "Algorithm 1" ELSE "Algorithm 1.A"
      [] obs = "pt" -> IF R <= 4 THEN "Algorithm 1 (reader)" ELSE "Algorithm 1.A (reader)"
      [] obs = "r.auth" -> IF R <= 4 THEN "Algorithm 6 / 7" ELSE "Algorithm 11 / 12"
      [] obs = "r.fk" -> IF R <= 4 THEN "Algorithm 2 via 6 / 7" ELSE "Algorithm 2.A"
      [] obs = "r.perms.ok" -> "Algorithm 13"
      [] OTHER -> "-"

-----------------------------------------------------------------------------
(* direction V *)
JudgeDict(r) ==
    LET c == r.cfg
        d == r.d
        bad(f) == [v |-> "dict." \o f \o "." \o RS(r), alg |-> "Table 20 / 21"]
    IN IF ~ValidCfg(c) THEN [v |-> "spec-inconsistent", alg |-> "-"]
       ELSE IF d.Filter # "Standard" THEN bad("Filter")
       ELSE IF d.V # c.V THEN bad("V")
       ELSE IF d.R # c.R THEN bad("R")
       ELSE IF d.Length \notin LegalLengths(c) THEN bad("Length")
       ELSE IF c.V >= 4 /\ (d.stmf # c.stmf \/ d.strf # c.strf) THEN bad("CFM")
       ELSE IF c.V >= 4 /\ ~c.meta /\ d.EncryptMetadata # "false" THEN bad("EncryptMetadata")
       ELSE IF c.V >= 4 /\ c.meta /\ d.EncryptMetadata = "false" THEN bad("EncryptMetadata")
       ELSE IF d.Olen # (IF c.R <= 4 THEN 32 ELSE 48) \/ d.Ulen # d.Olen THEN bad("OU-length")
       ELSE IF c.R >= 5 /\ (d.OElen # 32 \/ d.UElen # 32 \/ d.Permslen # 16) THEN bad("OE-UE-Perms-length")
       ELSE IF ~d.Pfits \/ d.P # PValue({r.off[i] : i \in 1..Len(r.off)}) THEN bad("P")
       ELSE [v |-> "ok", alg |-> "Table 20 / 21"]

JudgeObs(r) ==
    LET R == r.cfg.R
        m == IF IsStringKind(r.kind) THEN r.cfg.strf ELSE r.cfg.stmf
        generic == r.obs \o "." \o RS(r) \o (IF r.kind = "" THEN "" ELSE "." \o m \o "." \o r.kind)
                         \o (IF r.role = "" THEN "" ELSE "." \o r.role)
        sig ==
            IF HistoryClass(r, <<r.user, r.owner>>) /\ r.obs \in {"O", "U", "fk", "r.auth", "r.fk"}
            THEN "password-encoding.history.R234"   \* Algorithm 2 (a): PDFDocEncoding of the text, whatever was converted before
            ELSE IF r.obs = "O" /\ R <= 4 /\ Len(r.owner) = 0 /\ Len(r.user) # 0
            THEN "O.R234.owner-absent"            \* Algorithm 3 (a): no owner password => use the user password
            ELSE IF r.obs \in {"ct", "pt"} /\ r.kind = "str.sigcontents"
            THEN "signature.contents"             \* the Contents of a signature dictionary is not encrypted
            ELSE IF r.obs \in {"ct", "pt"} /\ r.kind = "stream.cryptid" /\ r.cfg.V >= 4
            THEN "crypt-filter.no-params"         \* Crypt filter without Name: Identity
            ELSE IF r.obs \in {"ct", "pt"} /\ r.kind # "" /\ Subject(r.cfg, r.kind) /\ m = "Identity"
            THEN "identity-filter.V" \o ToString(r.cfg.V)   \* the standard crypt filter Identity passes the data through
            ELSE IF r.obs \in {"ct", "pt"} /\ r.kind = "str.streamdict" /\ IsoSubject(r.kind, r.cfg.meta)
            THEN "streamdict.string"              \* a string in a stream dictionary is a string
            ELSE IF r.obs \in {"Perms", "r.perms.ok"} /\ R >= 5 /\ r.note = "stored-plaintext"
            THEN "Perms.R56.plaintext"            \* Algorithm 10 (f) not applied
            ELSE IF R >= 5 /\ SplitAtCut(r.user)
                    /\ (r.obs \in {"U", "UE"} \/ (r.obs \in {"r.auth", "r.fk"} /\ r.role = "user"))
            THEN "password-cut-in-character.R56"  \* Algorithm 2.A (b) truncates the BYTE string
            ELSE IF R >= 5 /\ SplitAtCut(r.owner)
                    /\ (r.obs \in {"O", "OE"} \/ (r.obs \in {"r.auth", "r.fk"} /\ r.role = "owner"))
            THEN "password-cut-in-character.R56"
            ELSE IF R >= 5 /\ PwBytes(r.user) > 127
                    /\ (r.obs \in {"U", "UE"} \/ (r.obs \in {"r.auth", "r.fk"} /\ r.role = "user"))
            THEN "password-over-127.R56"          \* Algorithm 2.A (b) applies to the password of Algorithm 8 too
            ELSE IF R >= 5 /\ PwBytes(r.owner) > 127
                    /\ (r.obs \in {"O", "OE"} \/ (r.obs \in {"r.auth", "r.fk"} /\ r.role = "owner"))
            THEN "password-over-127.R56"
            ELSE generic
    IN [v |-> IF ~ValidCfg(r.cfg) \/ (r.kind # "" /\ r.kind \notin ItemKinds) THEN "spec-inconsistent"
              ELSE IF r.bad = 0 THEN "ok" ELSE sig,
        alg |-> AlgOf(r.obs, R)]

-----------------------------------------------------------------------------
(* direction G *)
JudgeOpen(r) ==
    LET R == r.cfg.R
        u == PwOf(r.user)
        o == PwOf(r.owner)
        t == PwOf(r.try)
        oEff == IF R <= 4 /\ o = PwE THEN u ELSE o
        expU == Canon(R, t) = Canon(R, u)
        expO == Canon(R, t) = Canon(R, oEff)
        exp  == expU \/ expO
        role == IF expU /\ expO THEN "both" ELSE IF expU THEN "user" ELSE "owner"
        cfgs == RS(r) \o "." \o r.cfg.stmf \o "." \o r.cfg.strf
        bads == {r.bad[i] : i \in 1..Len(r.bad)}
        opened == r.res \in {"ok", "auto"}
        nopanic == "panic" \notin {r.authU, r.authO, r.res}
        failed == (expU /\ r.authU = "no") \/ (expO /\ r.authO = "no") \/ ~opened \/ bads # {}
        variantFails == exp /\ nopanic /\ failed /\ r.canonOpens = "yes"
        identityOnly == \A b \in bads : Subject(r.cfg, b) /\ MethodOf(r.cfg, b) = "Identity"
        consistent == /\ ValidCfg(r.cfg) /\ bads \subseteq ItemKinds /\ r.dlen \in LegalLengths(r.cfg)
                      /\ r.form \in Forms(r.cfg) /\ r.feature \in Features
                      /\ ("expUser" \in DOMAIN r) => (r.expUser = expU /\ r.expOwner = expO)
        v == IF ~consistent THEN "spec-inconsistent"
             \* a Length entry in another legal form than the canonical one, the same attempt succeeds with the canonical form
             ELSE IF exp /\ LenClass(r.cfg, r.dlen) # "none" /\ r.canonOpens = "yes" /\ "panic" \notin {r.authU, r.authO, r.res}
                     /\ ((expU /\ r.authU = "no") \/ (expO /\ r.authO = "no") \/ ~opened \/ bads # {})
             THEN "length." \o LenClass(r.cfg, r.dlen)                       \* Table 20: the entry does not apply / has its default
             \* another legal form of the dictionary / optional content, and the canonical document opens with this password
             ELSE IF variantFails /\ r.form = "enc.direct" THEN "encrypt-dictionary.direct"      \* Table 15: "dictionary"
             ELSE IF variantFails /\ r.form = "em.false" /\ (opened => bads \subseteq {"stream.meta"})
             THEN "encryptmetadata.below-V4"                                \* Table 20: meaningful only when V is 4 or 5
             ELSE IF variantFails /\ r.feature = "sig" /\ (opened => bads \subseteq {"str.sigcontents"})
             THEN "signature.contents"
             ELSE IF variantFails /\ r.feature = "crypt" /\ (opened => bads \subseteq {"stream.cryptid"})
             THEN "crypt-filter.no-params"
             \* the Identity filter, named or by default (Table 20: StmF / StrF default Identity): what it covers is changed
             ELSE IF exp /\ nopanic /\ opened /\ bads # {} /\ identityOnly /\ r.form \in {"canon", "stmf.absent", "strf.absent"}
             THEN "identity-filter.V" \o ToString(r.cfg.V)
             ELSE IF "panic" \in {r.authU, r.authO, r.res} THEN "panic." \o cfgs
             ELSE IF HistoryClass(r, <<r.user, r.owner, r.try>>) /\ "panic" \notin {r.authU, r.authO, r.res}
                     /\ (((r.authU = "yes") # expU /\ r.authU # "na") \/ ((r.authO = "yes") # expO /\ r.authO # "na")
                         \/ (exp /\ ~opened) \/ (~exp /\ opened))
             THEN "password-encoding.history.R234"                          \* Algorithm 2 (a) is a function of the text alone
             ELSE IF R >= 5 /\ SplitAtCut(r.try) /\ exp
                     /\ ((expU /\ r.authU = "no") \/ (expO /\ r.authO = "no") \/ (r.authU = "na" /\ ~opened))
             THEN "password-cut-in-character.R56"                           \* Algorithm 2.A (b) truncates the BYTE string
             ELSE IF r.authU \in {"yes", "no"} /\ (r.authU = "yes") # expU
             THEN "auth.user." \o (IF expU THEN "rejected." ELSE "accepted.") \o RS(r)
             ELSE IF r.authO \in {"yes", "no"} /\ (r.authO = "yes") # expO
             THEN "auth.owner." \o (IF expO THEN "rejected." ELSE "accepted.") \o RS(r)
             ELSE IF ~exp THEN (IF opened THEN "wrong-password.accepted." \o RS(r) ELSE "ok-rejected")
             \* the password is right
             ELSE IF r.fk = "ne"
             THEN (IF R <= 4 /\ expO /\ ~expU THEN "owner.R234.key"        \* Algorithm 7 (c): key of the recovered user password
                   ELSE "key." \o role \o "." \o RS(r))
             ELSE IF R >= 5 /\ expU /\ ~expO /\ r.res = "err" /\ r.permsPlainOpens = "yes"
             THEN "user.R56.perms-check"                                    \* Algorithm 13 (a) not applied before (b)
             ELSE IF ~opened THEN "open.error." \o role \o "." \o cfgs
             ELSE IF bads = {} THEN "ok"
             ELSE IF bads = {"str.streamdict"} THEN "streamdict.string"
             ELSE "open.content." \o role \o "." \o cfgs
    IN [v |-> v, alg |-> IF R <= 4 THEN "Algorithms 6, 7, 2, 1" ELSE "Algorithms 11, 12, 2.A, 13, 1.A"]

Judge(r) ==
    CASE r.ev = "dict"  -> JudgeDict(r)
      [] r.ev = "obs"   -> JudgeObs(r)
      [] r.ev = "open"  -> JudgeOpen(r)
      [] r.ev = "saved" -> [v |-> "ok-saved-" \o r.st, alg |-> "-"]
      [] r.ev = "env"   -> [v |-> "ok-env", alg |-> "-"]
      [] r.ev = "crash" -> [v |-> "encrypt." \o r.what \o "." \o RS(r), alg |-> "-"]
      [] OTHER -> [v |-> "spec-inconsistent", alg |-> "-"]

Init == l = 1
Next == /\ l <= Len(Recs)
        /\ LET j == Judge(Recs[l])
           IN PrintT(<<"VERDICT", ToJson([i |-> l, v |-> j.v, alg |-> j.alg])>>)
        /\ l' = l + 1
Spec == Init /\ [][Next]_l
Consumed == TLCGet("stats").diameter = Len(Recs) + 1
=============================================================================
