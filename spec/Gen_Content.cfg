SPECIFICATION GSpec
CONSTANTS
  Universe = "file"
  Emit = TRUE
  SepMode = "content"
INVARIANTS RoundTrip EmitInv
CHECK_DEADLOCK FALSE
