SPECIFICATION Spec
CONSTANTS
  Lens = {2}
  NCodes = 1
  MaxDefs = 2
  Dev_h34 = FALSE
  Dev_h35 = FALSE
  Emit = FALSE
  KnownClasses = {}
  Rich = FALSE
  SingleRangeStr = TRUE
  Styles <- GramStyles
  Dev_gram <- GramRepaired
  BaseVal <- BaseMid
INVARIANTS Refines SegmentationOK MapsOK DomainOK BuildForm
CHECK_DEADLOCK FALSE
