SPECIFICATION Spec
CONSTANTS
  Thorough = FALSE
  Dev_cache = FALSE
  OnlyFixed = FALSE
  Emit = TRUE
INVARIANTS LocalRefines HistoryFree ZoneSane EmitInv
CHECK_DEADLOCK FALSE
