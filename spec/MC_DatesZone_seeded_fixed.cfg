SPECIFICATION Spec
CONSTANTS
  Thorough = FALSE
  Dev_cache = TRUE
  OnlyFixed = TRUE
  Emit = FALSE
INVARIANTS LocalRefines HistoryFree ZoneSane
CHECK_DEADLOCK FALSE
