SPECIFICATION Spec
CONSTANTS
  N = 3
  DerefLimit = 6
  Dev_NextCycle = FALSE
  Dev_FirstCycle = FALSE
  Dev_KidsCycle = FALSE
  Dev_DestIndex = FALSE
  Dev_NdUnwrapD = FALSE
  Dev_NdKeyStr = FALSE
  Dev_NdValIndex = FALSE
  Dev_CsIndex = FALSE
  Dev_SizeHint = FALSE
  Dev_RsrcRecursion = FALSE
  Dev_FirstDepth = FALSE
  Dev_KidsDepth = FALSE
  FirstWalkIterative = TRUE
  StackFrames = 9
  OutlineDepthLimit = 5
  NameTreeDepthLimit = 5
  ChainLens = {1, 2, 3, 4, 5, 6, 7, 8, 9, 10, 12, 16, 24}
  Emit = TRUE
  Scen = {"chain", "deref", "cont", "rsrc", "links", "dest", "kids", "names", "img", "toc", "pages"}
INVARIANTS ChainOK StackOK PcOK Bounded RsrcDepth EmitInv

CHECK_DEADLOCK FALSE
