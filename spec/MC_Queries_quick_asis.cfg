SPECIFICATION Spec
CONSTANTS
  N = 3
  DerefLimit = 6
  Dev_NextCycle = TRUE
  Dev_FirstCycle = TRUE
  Dev_KidsCycle = TRUE
  Dev_DestIndex = TRUE
  Dev_NdUnwrapD = TRUE
  Dev_NdKeyStr = TRUE
  Dev_NdValIndex = TRUE
  Dev_CsIndex = TRUE
  Dev_SizeHint = TRUE
  Emit = TRUE
  Scen = {"deref", "cont", "rsrc", "links", "dest", "kids", "names", "img", "toc", "pages"}
INVARIANTS PcOK Bounded RsrcDepth EmitInv

CHECK_DEADLOCK FALSE
