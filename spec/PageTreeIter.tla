---------------------------- MODULE PageTreeIter ----------------------------
(* The page iterator as a state machine: one action per loop iteration of               *)
(* PageTreeIter::next in src/document.rs.  Definitions (declarative layer, graph          *)
(* representation, budget) come from PageTree.                                            *)
EXTENDS PageTree

VARIABLES g, cur, stack, budget, emitted, pc, steps

itvars == <<g, cur, stack, budget, emitted, pc, steps>>

IterInit(g0) ==
    /\ g = g0
    /\ cur = IterKids(g0, g0.root)
    /\ stack = <<>>
    /\ budget = Budget(g0)
    /\ emitted = <<>>
    /\ pc = "run"
    /\ steps = 0

\* one iteration of the inner `while let Some((kid, new_kids)) = kids.split_first()`
Take(depthLimit) ==
    /\ pc = "run" /\ cur # <<>>
    /\ steps' = steps + 1
    /\ IF budget = 0
       THEN pc' = "done" /\ UNCHANGED <<g, cur, stack, budget, emitted>>
       ELSE LET kid == Head(cur) rest == Tail(cur) IN
            /\ budget' = budget - 1
            /\ UNCHANGED <<g, pc>>
            /\ IF IsNode(g, kid) /\ g.typ[kid] = "Page"
               THEN emitted' = Append(emitted, kid) /\ cur' = rest /\ UNCHANGED stack
               ELSE IF IsNode(g, kid) /\ g.typ[kid] = "Pages" /\ Len(stack) < depthLimit
               THEN /\ stack' = IF rest # <<>> THEN Append(stack, rest) ELSE stack
                    /\ cur' = IterKids(g, kid)
                    /\ UNCHANGED emitted
               ELSE cur' = rest /\ UNCHANGED <<stack, emitted>>

\* current level exhausted: pop or finish
Pop ==
    /\ pc = "run" /\ cur = <<>>
    /\ steps' = steps + 1
    /\ IF stack # <<>>
       THEN /\ cur' = stack[Len(stack)]
            /\ stack' = SubSeq(stack, 1, Len(stack) - 1)
            /\ UNCHANGED <<g, budget, emitted, pc>>
       ELSE pc' = "done" /\ UNCHANGED <<g, cur, stack, budget, emitted>>

IterNext(depthLimit) == Take(depthLimit) \/ Pop

=============================================================================
