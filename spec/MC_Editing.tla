----------------------------- MODULE MC_Editing -----------------------------
(* Exhaustive exploration of EditingSys: every starting document of a family                     *)
(*   catalog, root Pages, optional intermediate Pages, 1-3 pages (Kids / Count / Parent),         *)
(*   page A's Contents in the shapes {single reference, array of 1, array of 2, array naming one  *)
(*   stream twice, reference to an array, missing, one stream shared with page B, a stream that   *)
(*   does not decode},                                                                            *)
(*   Resources {none, on the root (inline / behind a reference / with a category behind a          *)
(*   reference / with an XObject already named X<next object number>), on the page (inline /       *)
(*   behind a reference), on both, one object shared by pages A and B}, an annotation array on     *)
(*   page A ([a] / [a a]), an Info dictionary in the trailer, an image stream whose dictionary      *)
(*   references a mask stream, 0-1 pending bookmarks                                               *)
(* times every sequence of at most MaxDepth calls with arguments drawn from the live ids           *)
(* (delete_pages: single, unsorted, repeated, out-of-range and zero page numbers).  Content        *)
(* streams hold one operation per line ("A\n"); Editing!DecodeM / EncodeM stand for lopdf's         *)
(* Content::decode / encode on that alphabet.                                                      *)
(*                                                                                                *)
(* Refines:  every step's verdict (Editing!Judge on the impl-shaped step) has its violations in   *)
(*           Allowed when the behaviour runs "as the code is" (dev = DevAsIs; Allowed lists the   *)
(*           signatures of the known findings: none at present) and in Allowed + FormerFindings   *)
(*           when the repaired defects are seeded back (dev = DevSeeded).  Both are explored in   *)
(*           one run (Devs).                                                                      *)
(* StartOk:  the starting documents are sound.                                                    *)
(* Finish prints a deterministic sample (EmitMod / C11_PICK) of the complete behaviours as JSON    *)
(* lines for replay into lopdf; EmitViolations prints a sample (EmitModV) of the behaviours whose   *)
(* last step violates a clause in the model, up to that step.                                      *)
EXTENDS EditingSys, Json, IOUtils

\* TLC orders record fields by the order in which their names are first met while parsing, starting with this
\* (root) module.  Editing compares objects of different kinds ([k, v], [k, n], [k, d, c, z], ...): the kind field
\* k must be compared before the payload fields, so that values of different kinds never compare payloads of
\* different types (which TLC refuses to evaluate).  Keep this first mention of the object fields here.
KindFirst_MC_Editing(o) == <<o.k, o.n, o.v, o.d, o.c, o.z>>

CONSTANTS Starts,     \* set of start-document parameter records (see St)
          Devs,       \* switch records explored (Editing!DevAsIs, Editing!DevSeeded)
          Allowed,    \* violation tags a step may produce
          Emit,
          EmitMod,    \* one complete behaviour in EmitMod is printed ...
          EmitModV    \* ... and one in EmitModV of the behaviours that end in a violating step

VARIABLES start,      \* parameters of the starting document
          done,
          pend        \* simulation only: the call picked, not yet run

vars == <<svars, start, done, pend>>

\* object numbers of the starting documents
Cat == 1  Root == 2  PgA == 3  C1 == 4  C2 == 5  CArr == 6  Font == 7  ResObj == 8  Annot == 9
Mid == 10 PgB == 11  CB == 12  PgC == 13 CC == 14  Info == 15  Img == 16  Mask == 17
Mid2 == 18  CntR == 19  CntM == 20

\* get_or_create_resources gives up InheritBound levels above the page (128 in lopdf): the model world is scaled
MCInheritBound == 3

\* tree: "A" root->[A] | "AB" root->[A,B] | "AmB" root->[A, mid->[B]] | "mABC" root->[mid->[A,B], C]
\*       | "AmBi" as AmB with both Counts behind references | "deepA" root->[mid->[mid2->[A]]] (the root is
\*       MCInheritBound levels above page A)
\* cont: "ref" | "arr1" | "arr2" | "dup" | "refarr" | "missing"        (page A; other pages: "ref")
\*       | "shared" (pages A and B name the SAME content stream) | "undec" (A's stream does not decode)
\* res:  "none" | "root" | "rootref" | "rootcat" (inline on the root, its XObject category behind a reference)
\*       | "page" | "pageref" | "both"
\*       | "rootx" (the root's XObject category already has the name X<next object number>)
\*       | "shared" (pages A and B name the SAME Resources object)
\*       | "pagegs" (inline on the page, its ExtGState category behind a reference)
\*       | "pagex" (inline on the page, its XObject category already has the name X<next object number>)
\* ann:  0 | 1 | 2  annotation references on page A;   img: image + mask streams under the catalog
\* bm:   number of pending bookmarks (on page A)
St(tree, cont, res, ann, img, bm) == [tree |-> tree, cont |-> cont, res |-> res, ann |-> ann, img |-> img, bm |-> bm]

FontRes(nm) == DictO([Font |-> DictO((nm :> Ref(Font)))])

StartDoc(s) ==
    LET hasB == s.tree \notin {"A", "deepA"}
        hasC == s.tree = "mABC"
        hasMid == s.tree \in {"AmB", "mABC", "AmBi", "deepA"}
        icnt == s.tree = "AmBi"
        ids == {Cat, Root, PgA, Info}
               \cup (IF s.cont # "missing" THEN {C1} ELSE {})
               \cup (IF s.cont = "arr2" THEN {C2} ELSE {})
               \cup (IF s.cont = "refarr" THEN {CArr} ELSE {})
               \cup (IF s.res # "none" THEN {Font} ELSE {})
               \cup (IF s.res \in {"rootref", "pageref", "rootcat", "shared", "pagegs"} THEN {ResObj} ELSE {})
               \cup (IF s.ann > 0 THEN {Annot} ELSE {})
               \cup (IF hasMid THEN {Mid} ELSE {})
               \cup (IF s.tree = "deepA" THEN {Mid2} ELSE {})
               \cup (IF icnt THEN {CntR, CntM} ELSE {})
               \cup (IF hasB THEN {PgB} \cup (IF s.cont = "shared" THEN {} ELSE {CB}) ELSE {})
               \cup (IF hasC THEN {PgC, CC} ELSE {})
               \cup (IF s.img THEN {Img, Mask} ELSE {})
        parentOf(p) == IF s.tree \in {"AmB", "AmBi"} /\ p = PgB THEN Mid
                       ELSE IF s.tree = "deepA" THEN Mid2
                       ELSE IF s.tree = "mABC" /\ p \in {PgA, PgB} THEN Mid ELSE Root
        rootRes == CASE s.res \in {"root", "both"} -> ("Resources" :> FontRes("F1"))
                     [] s.res = "rootref" -> ("Resources" :> Ref(ResObj))
                     [] s.res = "rootcat" -> ("Resources" :> DictO([Font |-> DictO(("F1" :> Ref(Font))), XObject |-> Ref(ResObj)]))
                     [] s.res = "rootx" -> ("Resources" :> DictO([Font |-> DictO(("F1" :> Ref(Font))),
                                                                   XObject |-> DictO((XName(MaxOf(ids) + 1).s :> Ref(Font)))]))
                     [] OTHER -> <<>>
        pageRes == CASE s.res = "page" -> ("Resources" :> FontRes("F1"))
                     [] s.res = "both" -> ("Resources" :> FontRes("F2"))
                     [] s.res \in {"pageref", "shared"} -> ("Resources" :> Ref(ResObj))
                     [] s.res = "pagex" -> ("Resources" :> DictO([Font |-> DictO(("F1" :> Ref(Font))),
                                                                   XObject |-> DictO((XName(MaxOf(ids) + 1).s :> Ref(Font)))]))
                     [] s.res = "pagegs" -> ("Resources" :> DictO([Font |-> DictO(("F1" :> Ref(Font))), ExtGState |-> Ref(ResObj)]))
                     [] OTHER -> <<>>
        pageResB == IF s.res = "shared" THEN ("Resources" :> Ref(ResObj)) ELSE <<>>
        contA == CASE s.cont \in {"ref", "shared", "undec"} -> ("Contents" :> Ref(C1))
                   [] s.cont = "arr1" -> ("Contents" :> ArrO(<<Ref(C1)>>))
                   [] s.cont = "arr2" -> ("Contents" :> ArrO(<<Ref(C1), Ref(C2)>>))
                   [] s.cont = "dup" -> ("Contents" :> ArrO(<<Ref(C1), Ref(C1)>>))
                   [] s.cont = "refarr" -> ("Contents" :> Ref(CArr))
                   [] OTHER -> <<>>
        annA == IF s.ann = 0 THEN <<>> ELSE ("Annots" :> ArrO([i \in 1..s.ann |-> Ref(Annot)]))
        page(p, extra) == DictO(extra @@ [Type |-> NameO("Page"), Parent |-> Ref(parentOf(p))])
        pagesNode(kids, cnt, extra) ==
            DictO(extra @@ [Type |-> NameO("Pages"), Kids |-> ArrO([i \in 1..Len(kids) |-> Ref(kids[i])]),
                            Count |-> IF icnt THEN Ref(CntR) ELSE IntO(cnt)])
        rootKids == CASE s.tree = "A" -> <<PgA>> [] s.tree = "AB" -> <<PgA, PgB>>
                      [] s.tree \in {"AmB", "AmBi"} -> <<PgA, Mid>> [] s.tree = "deepA" -> <<Mid>> [] OTHER -> <<Mid, PgC>>
        midKids == CASE s.tree \in {"AmB", "AmBi"} -> <<PgB>> [] s.tree = "deepA" -> <<Mid2>> [] OTHER -> <<PgA, PgB>>
        midCount == IF s.tree = "deepA" THEN 1 ELSE Len(midKids)
        nPages == CASE s.tree \in {"A", "deepA"} -> 1 [] s.tree = "mABC" -> 3 [] OTHER -> 2
        obj(id) ==
            CASE id = Cat   -> DictO((IF s.img THEN ("Img" :> Ref(Img)) ELSE <<>>) @@ [Type |-> NameO("Catalog"), Pages |-> Ref(Root)])
              [] id = Root  -> pagesNode(rootKids, nPages, rootRes)
              [] id = Mid   -> DictO([Type |-> NameO("Pages"), Parent |-> Ref(Root),
                                      Kids |-> ArrO([i \in 1..Len(midKids) |-> Ref(midKids[i])]),
                                      Count |-> IF icnt THEN Ref(CntM) ELSE IntO(midCount)])
              [] id = Mid2  -> DictO([Type |-> NameO("Pages"), Parent |-> Ref(Mid), Kids |-> ArrO(<<Ref(PgA)>>), Count |-> IntO(1)])
              [] id = CntR  -> IntO(nPages)
              [] id = CntM  -> IntO(midCount)
              [] id = PgA   -> page(PgA, pageRes @@ contA @@ annA)
              [] id = PgB   -> page(PgB, pageResB @@ ("Contents" :> Ref(IF s.cont = "shared" THEN C1 ELSE CB)))
              [] id = PgC   -> page(PgC, ("Contents" :> Ref(CC)))
              \* content streams: one operation per line ("A\n" ...); "BI\n" does not decode
              [] id = C1    -> StreamO(<<>>, IF s.cont = "undec" THEN <<66, 73, 10>> ELSE <<65, 10>>, FALSE)
              [] id = C2    -> StreamO(<<>>, <<97, 10>>, FALSE)
              [] id = CB    -> StreamO(<<>>, <<66, 10>>, FALSE)
              [] id = CC    -> StreamO(<<>>, <<67, 10>>, FALSE)
              [] id = CArr  -> ArrO(<<Ref(C1)>>)
              [] id = Font  -> DictO([Type |-> NameO("Font")])
              [] id = ResObj -> IF s.res = "rootcat" THEN DictO(("Im0" :> Ref(Font)))
                                ELSE IF s.res = "pagegs" THEN DictO(("GS0" :> Ref(Font))) ELSE FontRes("F1")
              [] id = Annot -> DictO([Type |-> NameO("Annot")])
              [] id = Info  -> DictO([Title |-> StrO("T")])
              [] id = Img   -> StreamO([Type |-> NameO("XObject"), SMask |-> Ref(Mask)], <<1, 2>>, FALSE)
              [] id = Mask  -> StreamO([Type |-> NameO("XObject")], <<3>>, FALSE)
    IN [objs |-> [id \in ids |-> obj(id)],
        trailer |-> [Root |-> Ref(Cat), Info |-> Ref(Info)],
        max_id |-> MaxOf(ids),
        bms |-> [i \in 1..s.bm |-> PgA]]

DevBoth   == {DevAsIs, DevSeeded}
DevAll    == {DevAsIs, DevSeeded, DevRepaired}
DevTwo    == {DevAsIs, DevRepaired}
DevCode   == {DevAsIs}

BytesQuick    == {<<90, 10>>}                                           \* "Z\n"
\* ... a long run (the compressible class) and content that ends without white space
BytesThorough == {<<90, 10>>, [i \in 1..64 |-> 120] \o <<10>>, <<90>>}
\* page-number lists: single, unsorted, the same number twice, out of range and 0, a repeat around another number
BytesTwo      == {<<90, 10>>, <<90>>}                                 \* with / without trailing white space
NumsTwo       == {<<1>>, <<1, 1>>}
NumsQuick     == {<<1>>, <<2, 1>>, <<1, 1>>}
NumsThorough  == {<<1>>, <<2>>, <<2, 1>>, <<1, 1>>, <<3>>, <<0, 2>>, <<2, 4, 2>>}

StartsTiny == {St("AB", "dup", "rootref", 2, TRUE, 1)}

\* every Contents shape on a nested tree with inherited Resources; own + inherited Resources, annotations, image,
\* bookmark on a flat tree; three pages under an intermediate node
StartsQuick ==
    {St("AmB", c, "rootref", 1, FALSE, 0) : c \in {"ref", "arr1", "arr2", "dup", "refarr", "missing"}}
    \cup {St("AB", "ref", "both", 2, TRUE, 1), St("mABC", "dup", "pageref", 1, FALSE, 1)}

\* focused families: one aspect varied on a small tree
StartsContent  == {St("A", c, "root", 0, FALSE, 0) : c \in {"ref", "arr1", "arr2", "dup", "refarr", "missing"}}
StartsContent2 == {St("AmB", c, "rootref", 1, FALSE, 0) : c \in {"ref", "arr1", "arr2", "dup", "refarr", "missing"}}
StartsRes      == {St("AmB", "ref", r, 0, FALSE, 0) : r \in {"none", "root", "rootref", "rootcat", "page", "pageref", "both", "pagegs"}}
\* the calls of parser_aux.rs: Contents shapes (also shared / not decodable) x Resources placements (also a
\* name the call is going to pick / a Resources object shared by two pages)
StartsIns      == {St("AB", c, "rootx", 0, FALSE, 0) : c \in {"ref", "arr2", "refarr", "missing", "shared", "undec"}}
                  \cup {St("AB", c, "shared", 0, FALSE, 0) : c \in {"ref", "shared"}}
                  \cup {St("AB", "ref", "pagex", 0, FALSE, 0)}
StartsIns2     == {St("AB", c, r, 0, FALSE, 0) : c \in {"ref", "arr1", "arr2", "dup", "refarr", "missing", "shared", "undec"},
                                                 r \in {"none", "rootref", "rootcat", "rootx", "pagex", "shared", "both"}}
\* the audit shapes: the Resources holder MCInheritBound levels above the page; indirect Counts; a bookmark on a
\* page that gets deleted; (ids above max_id come from the Replace candidates)
StartsAudit    == {St("deepA", "ref", "root", 0, FALSE, 0), St("deepA", "ref", "rootref", 0, FALSE, 0),
                   St("AmBi", "ref", "rootref", 0, FALSE, 1), St("AB", "ref", "root", 0, FALSE, 1)}
StartsObj1     == {St("AB", "dup", "rootref", 2, TRUE, 1)}
StartsObj      == {St("AB", "dup", "rootref", 2, TRUE, 1), St("A", "arr2", "none", 1, FALSE, 1)}

StartsAll3     == {St("AmB", c, "rootref", 1, FALSE, 0) : c \in {"refarr"}}
                  \cup {St("AB", "ref", "both", 2, TRUE, 1), St("mABC", "dup", "pageref", 1, FALSE, 1)}

StartsThorough ==
    {St(t, c, r, 1, FALSE, 0) : t \in {"AB", "AmB"}, c \in {"ref", "arr1", "arr2", "dup", "refarr", "missing"},
                                r \in {"none", "root", "rootref", "rootcat", "page", "pageref", "both", "pagegs"}}
    \cup {St("mABC", c, "rootref", 2, TRUE, 1) : c \in {"ref", "dup", "refarr"}}
    \cup {St("A", c, "root", 2, TRUE, 1) : c \in {"arr1", "missing"}}

\* objects offered to add_object / set_object: holders of references in each container kind
MCNewObjs(d) ==
    LET t == MaxOf(Streams(d) \cup {0})
        u == MaxOf((DOMAIN d.objs \ aux.prot) \cup {0})
    IN {StreamO([F |-> Ref(u)], <<>>, FALSE), ArrO(<<Ref(t), Ref(t)>>)}

OpsContent == {"AddPageContents", "ChangePageContent", "ChangeContentStream", "DeleteObject", "DeletePages", "Compress", "Decompress"}
OpsRes     == {"GetOrCreateResources", "AddXObject", "AddGraphicsState", "DeleteObject", "DeletePages", "Prune"}
OpsIns     == {"AddToPageContent", "InsertImage", "InsertFormObject", "ChangePageContent"}
OpsAudit   == {"GetOrCreateResources", "AddXObject", "AddGraphicsState", "InsertImage", "InsertFormObject", "DeletePages",
               "Replace", "NewObjectId", "AddObject", "BuildOutline"}
OpsObj     == {"NewObjectId", "AddObject", "Replace", "DeleteObject", "RemoveAnnot", "Prune", "Renumber", "BuildOutline", "Save", "SaveLoad"}

NoCall == Call("none")

Init ==
    /\ start \in Starts
    /\ dev \in Devs
    /\ doc = StartDoc(start)
    /\ aux = Aux(doc)
    /\ gh = GhostOf(aux, [q \in RangeOf(aux.pp) |-> DecodeM(IF dev.boundary THEN PlainContent(doc.objs, q) ELSE aux.content[q])])
    /\ n = 0 /\ fails = {} /\ hist = <<>> /\ done = FALSE /\ pend = NoCall

JsonOfDoc(d) ==
    LET ids == SetToSortSeq(DOMAIN d.objs, <) IN
    [objects |-> [i \in 1..Len(ids) |-> <<ids[i], d.objs[ids[i]]>>], trailer |-> d.trailer, max_id |-> d.max_id, bms |-> d.bms]

HistSum ==
    FoldLeft(LAMBDA acc, i : (acc * 31 + hist[i].c.id * 7 + hist[i].c.x + Len(hist[i].c.op) * 3 + Len(hist[i].c.b) + Len(hist[i].c.nums)) % 1000003,
             Len(start.tree) + Len(start.cont) * 5 + Len(start.res) * 11 + start.ann, [i \in 1..Len(hist) |-> i])

EmitPick == atoi(IOEnv.C11_PICK) % EmitMod

ReplayLine ==
    LET d0 == StartDoc(start)
        A0 == Aux(d0)
    IN <<"REPLAY", ToJson([start |-> start, asis |-> dev.asis, mode |-> dev.mode, doc |-> JsonOfDoc(d0),
                           content |-> [i \in 1..Len(A0.pp) |-> <<A0.pp[i], A0.content[A0.pp[i]]>>],
                           calls |-> hist, final |-> JsonOfDoc(doc)])>>

\* a behaviour ends after MaxDepth calls (or when a reported step left the document unsound); a
\* deterministic sample of the complete behaviours is printed
Finish ==
    /\ ~done /\ pend = NoCall /\ (n = MaxDepth \/ ~aux.sound)
    /\ done' = TRUE
    /\ IF Emit /\ HistSum % EmitMod = EmitPick THEN PrintT(ReplayLine) ELSE TRUE
    /\ UNCHANGED <<svars, start, pend>>

\* ... and every behaviour whose last step violates a clause in the model is printed up to that step
\* (breadth-first mode evaluates an invariant once per distinct state)
EmitViolations == (Emit /\ ~done /\ Violations(fails) # {} /\ HistSum % EmitModV = EmitPick % EmitModV) => PrintT(ReplayLine)

Idle == ~done /\ pend = NoCall
Keep == UNCHANGED <<start, done, pend>>
NewObjectIdS          == Idle /\ NewObjectId /\ Keep
AddObjectS            == Idle /\ AddObject /\ Keep
ReplaceS              == Idle /\ Replace /\ Keep
DeleteObjectS         == Idle /\ DeleteObject /\ Keep
RemoveAnnotS          == Idle /\ RemoveAnnot /\ Keep
PruneS                == Idle /\ Prune /\ Keep
DeletePagesS          == Idle /\ DeletePages /\ Keep
RenumberS             == Idle /\ Renumber /\ Keep
CompressS             == Idle /\ Compress /\ Keep
DecompressS           == Idle /\ Decompress /\ Keep
AddPageContentsS      == Idle /\ AddPageContents /\ Keep
ChangePageContentS    == Idle /\ ChangePageContent /\ Keep
ChangeContentStreamS  == Idle /\ ChangeContentStream /\ Keep
GetOrCreateResourcesS == Idle /\ GetOrCreateResources /\ Keep
AddXObjectS           == Idle /\ AddXObject /\ Keep
AddGraphicsStateS     == Idle /\ AddGraphicsState /\ Keep
BuildOutlineS         == Idle /\ BuildOutline /\ Keep
AddToPageContentS     == Idle /\ AddToPageContent /\ Keep
InsertImageS          == Idle /\ InsertImage /\ Keep
InsertFormObjectS     == Idle /\ InsertFormObject /\ Keep
SaveS                 == Idle /\ Save /\ Keep
SaveLoadS             == Idle /\ SaveLoad /\ Keep

Next == NewObjectIdS \/ AddObjectS \/ ReplaceS \/ DeleteObjectS \/ RemoveAnnotS \/ PruneS \/ DeletePagesS \/ RenumberS
        \/ CompressS \/ DecompressS \/ AddPageContentsS \/ ChangePageContentS \/ ChangeContentStreamS
        \/ GetOrCreateResourcesS \/ AddXObjectS \/ AddGraphicsStateS \/ BuildOutlineS \/ SaveS \/ SaveLoadS
        \/ AddToPageContentS \/ InsertImageS \/ InsertFormObjectS \/ Finish

Spec == Init /\ [][Next]_vars

\* Random simulation (tlc -simulate) takes a call in two cheap moves, so that only the chosen call is
\* run and judged: Pick chooses an enabled call, Exec runs it.
Pick ==
    /\ ~done /\ pend = NoCall
    /\ \E op \in Ops : \E c \in Cands(op) : Enabled(c) /\ pend' = c
    /\ UNCHANGED <<svars, start, done>>
Exec ==
    /\ pend # NoCall /\ Step(pend) /\ pend' = NoCall
    /\ UNCHANGED <<start, done>>
SimNext == Pick \/ Exec \/ Finish
SimSpec == Init /\ [][SimNext]_vars

\* history is not part of the fingerprint: two call sequences that lead to the same document, ghost
\* state, depth and last verdict are explored once (aux is a function of doc)
View == <<dev, doc, gh, n, fails, start, done, pend>>

-----------------------------------------------------------------------------
\* As the code is, the only violations are the listed findings (none); with the repaired defects seeded back, the
\* only violations are the five former findings.
Refines == Violations(fails) \subseteq (CASE dev.mode = "asis" -> Allowed
                                          [] dev.mode = "seeded" -> Allowed \cup FormerFindings
                                          [] OTHER -> {})       \* "repaired": every confirmed deviation repaired

StartOk == n = 0 => JudgeState(doc, aux, gh.content) = {} /\ aux.sound

\* aux and the ghost content are what the document shows (content is re-synchronised by Judge)
GhostSync == aux = Aux(doc) /\ gh.content = aux.content /\ gh.ops = [q \in RangeOf(aux.pp) |-> DecodeM(IF dev.boundary THEN PlainContent(doc.objs, q) ELSE aux.content[q])]
=============================================================================
