----------------------------- MODULE MC_Editing -----------------------------
(* Exhaustive exploration of EditingSys: every starting document of a family                     *)
(*   catalog, root Pages, optional intermediate Pages, 1-3 pages (Kids / Count / Parent),         *)
(*   page A's Contents in the shapes {single reference, array of 1, array of 2, array naming one  *)
(*   stream twice, reference to an array, missing},                                               *)
(*   Resources {none, on the root (inline / behind a reference), on the page (inline / behind a   *)
(*   reference), on both}, an annotation array on page A ([a] / [a a]), an Info dictionary in the  *)
(*   trailer, an image stream whose dictionary references a mask stream, 0-1 pending bookmarks    *)
(* times every sequence of at most MaxDepth calls with arguments drawn from the live ids.         *)
(*                                                                                                *)
(* Refines:  every step's verdict (Editing!Judge on the impl-shaped step) has its violations in   *)
(*           Allowed.  "As the code is" (Dev <- DevAsIs) Allowed lists exactly the signatures of  *)
(*           the known findings; "as repaired" (Dev <- DevRepaired) Allowed = {}.                  *)
(* StartOk:  the starting documents are sound.                                                    *)
(* Finish prints complete behaviours as JSON lines for replay into lopdf: all those that contain  *)
(* a violation in the model and a deterministic sample (EmitMod / EmitPick) of the others.        *)
EXTENDS EditingSys, Json, IOUtils

CONSTANTS Starts,     \* set of start-document parameter records (see St)
          Allowed,    \* violation tags a step may produce
          Emit, EmitMod

VARIABLES start,      \* parameters of the starting document
          done

vars == <<svars, start, done>>

\* object numbers of the starting documents
Cat == 1  Root == 2  PgA == 3  C1 == 4  C2 == 5  CArr == 6  Font == 7  ResObj == 8  Annot == 9
Mid == 10 PgB == 11  CB == 12  PgC == 13 CC == 14  Info == 15  Img == 16  Mask == 17

\* tree: "A" root->[A] | "AB" root->[A,B] | "AmB" root->[A, mid->[B]] | "mABC" root->[mid->[A,B], C]
\* cont: "ref" | "arr1" | "arr2" | "dup" | "refarr" | "missing"        (page A; other pages: "ref")
\* res:  "none" | "root" | "rootref" | "page" | "pageref" | "both"
\* ann:  0 | 1 | 2  annotation references on page A;   img: image + mask streams under the catalog
\* bm:   number of pending bookmarks (on page A)
St(tree, cont, res, ann, img, bm) == [tree |-> tree, cont |-> cont, res |-> res, ann |-> ann, img |-> img, bm |-> bm]

FontRes(nm) == DictO([Font |-> DictO((nm :> Ref(Font)))])

StartDoc(s) ==
    LET hasB == s.tree # "A"
        hasC == s.tree = "mABC"
        hasMid == s.tree \in {"AmB", "mABC"}
        parentOf(p) == IF s.tree = "AmB" /\ p = PgB THEN Mid
                       ELSE IF s.tree = "mABC" /\ p \in {PgA, PgB} THEN Mid ELSE Root
        rootRes == CASE s.res \in {"root", "both"} -> ("Resources" :> FontRes("F1"))
                     [] s.res = "rootref" -> ("Resources" :> Ref(ResObj))
                     [] OTHER -> <<>>
        pageRes == CASE s.res = "page" -> ("Resources" :> FontRes("F1"))
                     [] s.res = "both" -> ("Resources" :> FontRes("F2"))
                     [] s.res = "pageref" -> ("Resources" :> Ref(ResObj))
                     [] OTHER -> <<>>
        contA == CASE s.cont = "ref" -> ("Contents" :> Ref(C1))
                   [] s.cont = "arr1" -> ("Contents" :> ArrO(<<Ref(C1)>>))
                   [] s.cont = "arr2" -> ("Contents" :> ArrO(<<Ref(C1), Ref(C2)>>))
                   [] s.cont = "dup" -> ("Contents" :> ArrO(<<Ref(C1), Ref(C1)>>))
                   [] s.cont = "refarr" -> ("Contents" :> Ref(CArr))
                   [] OTHER -> <<>>
        annA == IF s.ann = 0 THEN <<>> ELSE ("Annots" :> ArrO([i \in 1..s.ann |-> Ref(Annot)]))
        page(p, extra) == DictO(extra @@ [Type |-> NameO("Page"), Parent |-> Ref(parentOf(p))])
        pagesNode(kids, cnt, extra) ==
            DictO(extra @@ [Type |-> NameO("Pages"), Kids |-> ArrO([i \in 1..Len(kids) |-> Ref(kids[i])]), Count |-> IntO(cnt)])
        rootKids == CASE s.tree = "A" -> <<PgA>> [] s.tree = "AB" -> <<PgA, PgB>>
                      [] s.tree = "AmB" -> <<PgA, Mid>> [] OTHER -> <<Mid, PgC>>
        midKids == IF s.tree = "AmB" THEN <<PgB>> ELSE <<PgA, PgB>>
        nPages == CASE s.tree = "A" -> 1 [] s.tree = "mABC" -> 3 [] OTHER -> 2
        ids == {Cat, Root, PgA, Info}
               \cup (IF s.cont \in {"ref", "arr1", "arr2", "dup", "refarr"} THEN {C1} ELSE {})
               \cup (IF s.cont = "arr2" THEN {C2} ELSE {})
               \cup (IF s.cont = "refarr" THEN {CArr} ELSE {})
               \cup (IF s.res # "none" THEN {Font} ELSE {})
               \cup (IF s.res \in {"rootref", "pageref"} THEN {ResObj} ELSE {})
               \cup (IF s.ann > 0 THEN {Annot} ELSE {})
               \cup (IF hasMid THEN {Mid} ELSE {})
               \cup (IF hasB THEN {PgB, CB} ELSE {})
               \cup (IF hasC THEN {PgC, CC} ELSE {})
               \cup (IF s.img THEN {Img, Mask} ELSE {})
        obj(id) ==
            CASE id = Cat   -> DictO((IF s.img THEN ("Img" :> Ref(Img)) ELSE <<>>) @@ [Type |-> NameO("Catalog"), Pages |-> Ref(Root)])
              [] id = Root  -> pagesNode(rootKids, nPages, rootRes)
              [] id = Mid   -> DictO([Type |-> NameO("Pages"), Parent |-> Ref(Root),
                                      Kids |-> ArrO([i \in 1..Len(midKids) |-> Ref(midKids[i])]), Count |-> IntO(Len(midKids))])
              [] id = PgA   -> page(PgA, pageRes @@ contA @@ annA)
              [] id = PgB   -> page(PgB, ("Contents" :> Ref(CB)))
              [] id = PgC   -> page(PgC, ("Contents" :> Ref(CC)))
              [] id = C1    -> StreamO(<<>>, <<65>>, FALSE)
              [] id = C2    -> StreamO(<<>>, <<97>>, FALSE)
              [] id = CB    -> StreamO(<<>>, <<66>>, FALSE)
              [] id = CC    -> StreamO(<<>>, <<67>>, FALSE)
              [] id = CArr  -> ArrO(<<Ref(C1)>>)
              [] id = Font  -> DictO([Type |-> NameO("Font")])
              [] id = ResObj -> FontRes("F1")
              [] id = Annot -> DictO([Type |-> NameO("Annot")])
              [] id = Info  -> DictO([Title |-> StrO("T")])
              [] id = Img   -> StreamO([Type |-> NameO("XObject"), SMask |-> Ref(Mask)], <<1, 2>>, FALSE)
              [] id = Mask  -> StreamO([Type |-> NameO("XObject")], <<3>>, FALSE)
    IN [objs |-> [id \in ids |-> obj(id)],
        trailer |-> [Root |-> Ref(Cat), Info |-> Ref(Info)],
        max_id |-> MaxOf(ids),
        bms |-> [i \in 1..s.bm |-> PgA]]

BytesQuick    == {<<90>>}
BytesThorough == {<<90>>, [i \in 1..64 |-> 120]}          \* a long run: the compressible class
NumsQuick     == {<<1>>, <<2, 1>>}
NumsThorough  == {<<1>>, <<2>>, <<2, 1>>, <<1, 1>>, <<3>>}

StartsTiny == {St("AB", "dup", "rootref", 2, TRUE, 1)}

\* every Contents shape x every Resources placement on the two-page trees, annotations and image on some
StartsQuick ==
    {St("AmB", c, "rootref", 1, FALSE, 0) : c \in {"ref", "arr1", "arr2", "dup", "refarr", "missing"}}
    \cup {St("AB", "ref", r, 2, TRUE, 1) : r \in {"none", "root", "page", "pageref", "both"}}
    \cup {St("A", "arr2", "root", 0, TRUE, 0), St("mABC", "refarr", "both", 1, FALSE, 1)}

StartsThorough ==
    {St(t, c, r, 1, FALSE, 0) : t \in {"AB", "AmB"}, c \in {"ref", "arr1", "arr2", "dup", "refarr", "missing"},
                                r \in {"none", "root", "rootref", "page", "pageref", "both"}}
    \cup {St("mABC", c, "rootref", 2, TRUE, 1) : c \in {"ref", "dup", "refarr"}}
    \cup {St("A", c, "root", 2, TRUE, 1) : c \in {"arr1", "missing"}}

\* objects offered to add_object / set_object: holders of references in each container kind
MCNewObjs(d) ==
    LET t == MaxOf(Streams(d) \cup {0})
        u == MaxOf((DOMAIN d.objs \ aux.prot) \cup {0})
    IN {StreamO([F |-> Ref(u)], <<>>, FALSE), ArrO(<<Ref(t), Ref(t)>>)}

Init ==
    /\ start \in Starts
    /\ doc = StartDoc(start)
    /\ aux = Aux(doc)
    /\ gh = GhostOf(aux)
    /\ n = 0 /\ fails = {} /\ hist = <<>> /\ done = FALSE

JsonOfDoc(d) ==
    LET ids == SetToSortSeq(DOMAIN d.objs, <) IN
    [objects |-> [i \in 1..Len(ids) |-> <<ids[i], d.objs[ids[i]]>>], trailer |-> d.trailer, max_id |-> d.max_id, bms |-> d.bms]

HistSum ==
    FoldLeft(LAMBDA acc, i : (acc * 31 + hist[i].c.id * 7 + hist[i].c.x + Len(hist[i].c.op) * 3 + Len(hist[i].c.b) + Len(hist[i].c.nums)) % 1000003,
             Len(start.tree) + Len(start.cont) * 5 + Len(start.res) * 11 + start.ann, [i \in 1..Len(hist) |-> i])

EmitPick == atoi(IOEnv.C11_PICK) % EmitMod

ReplayLine == <<"REPLAY", ToJson([start |-> start, doc |-> JsonOfDoc(StartDoc(start)),
                                    calls |-> hist, final |-> JsonOfDoc(doc)])>>

\* a behaviour ends after MaxDepth calls; a deterministic sample of the complete behaviours is printed
Finish ==
    /\ ~done /\ n = MaxDepth
    /\ done' = TRUE
    /\ IF Emit /\ HistSum % EmitMod = EmitPick THEN PrintT(ReplayLine) ELSE TRUE
    /\ UNCHANGED <<svars, start>>

\* ... and every behaviour whose last step violates a clause in the model is printed up to that step
\* (breadth-first mode evaluates an invariant once per distinct state)
EmitViolations == (Emit /\ ~done /\ Violations(fails) # {}) => PrintT(ReplayLine)

W(A) == ~done /\ A /\ UNCHANGED <<start, done>>
NewObjectIdS == W(NewObjectId)
AddObjectS == W(AddObject)
ReplaceS == W(Replace)
DeleteObjectS == W(DeleteObject)
RemoveAnnotS == W(RemoveAnnot)
PruneS == W(Prune)
DeletePagesS == W(DeletePages)
RenumberS == W(Renumber)
CompressS == W(Compress)
DecompressS == W(Decompress)
AddPageContentsS == W(AddPageContents)
ChangePageContentS == W(ChangePageContent)
ChangeContentStreamS == W(ChangeContentStream)
GetOrCreateResourcesS == W(GetOrCreateResources)
AddXObjectS == W(AddXObject)
AddGraphicsStateS == W(AddGraphicsState)
BuildOutlineS == W(BuildOutline)
SaveS == W(Save)
SaveLoadS == W(SaveLoad)

Next == NewObjectIdS \/ AddObjectS \/ ReplaceS \/ DeleteObjectS \/ RemoveAnnotS \/ PruneS \/ DeletePagesS \/ RenumberS \/ CompressS \/ DecompressS \/ AddPageContentsS \/ ChangePageContentS \/ ChangeContentStreamS \/ GetOrCreateResourcesS \/ AddXObjectS \/ AddGraphicsStateS \/ BuildOutlineS \/ SaveS \/ SaveLoadS \/ Finish

Spec == Init /\ [][Next]_vars

\* history is not part of the fingerprint: two call sequences that lead to the same document, ghost
\* state, depth and last verdict are explored once
View == <<doc, gh, n, fails, start, done>>      \* aux is a function of doc

-----------------------------------------------------------------------------
Refines == Violations(fails) \subseteq Allowed

StartOk == n = 0 => JudgeState(doc, aux, gh.content) = {} /\ aux.sound

\* the ghost content is what the document shows (re-synchronised by Judge)
GhostSync == aux = Aux(doc) /\ gh.content = aux.content
=============================================================================
