SPECIFICATION Spec
CONSTANTS
  MaxB = 2
  NPs = {1}
  MaxPost = 0
  Reserve = TRUE
  Titles <- TitleClasses
  Stack = 64
  WorkList = FALSE
  DestSpellings = {"none"}
  FollowRefs = FALSE
  IdLimits = {5, 7, 8, 9, 10, 20}
  CheckedIds = TRUE
  Emit = TRUE
INVARIANTS RefinesForest RefinesAdjust RefinesFresh RefinesLinks RefinesCarries RefinesToc Verdict NoAbort RefusedOk EmitInv
PROPERTIES Reserved
CHECK_DEADLOCK FALSE
