SPECIFICATION Spec
CONSTANTS
  Universe = "mixops"
  Emit = TRUE
  SepMode = "content"
INVARIANTS RoundTrip EmitInv
CHECK_DEADLOCK FALSE
