------------------------------ MODULE MC_Dates ------------------------------
(* Model checking of Dates (C18).                                                              *)
(*  - CalYear: for every year of CalYears, every day of the year: CivilFromDays is valid, is     *)
(*    inverted by DaysFromCivil and the next day is Succ of it (so the closed form IS the        *)
(*    calendar "day 0 = 0001-01-01, then Succ").                                                 *)
(*  - Pick .. Done: for every case (instant, offset) of Cases and every backend, the steps of    *)
(*    src/datetime.rs (format, the backwards scan of convert_utc_offset, datetime_string's       *)
(*    filter, one action per strptime attempt) are run on the strings of the five forms.         *)
(*    Declarative invariant RoundTrip: Parse(Fmt(i, off)) = (i, off) etc.                       *)
(*    Refinement: the impl-shaped result agrees with the declarative one (Dev_h41 = FALSE: the    *)
(*    code as it is since fix: 4d9b221), except exactly the repaired deviation h41 (time backend: *)
(*    only the full form parses) when it is seeded back with Dev_h41 = TRUE (MC_Dates_seeded).    *)
(*  - PickDirect: the year-boundary instants 0001-01-01T00:00:00Z and 9999-12-31T23:59:59Z x every  *)
(*    offset (local years 0000 and 10000) and every pair whose wall clock cannot be written with    *)
(*    four year digits run the function forms of the same steps in one action (FunctionForm ties    *)
(*    the two together on the stepped cases).  Deviations of the code as it is, asserted exactly:   *)
(*    Dev_y10k (chrono writes "+10000..." for a local year 10000 - not a date string),              *)
(*    Dev_gmt (jiff's date-only attempt needs a "GMT" entry in the host's zone database: env).      *)
(* With Emit every case is printed once as a REPLAY line (expected strings and parse results     *)
(* computed by the declarative layer).                                                           *)
EXTENDS Dates, TLC, Json

CONSTANTS Thorough, Dev_h41, Dev_gmt, Dev_y10k, Emit,
          Tiny      \* TRUE: a handful of offsets only - the run on which TLC's action coverage is collected (-coverage
                    \* makes TLC re-evaluate the case sets over and over: 70 s of start-up on the quick case set)

VARIABLES pc, cs, b, buf, idx, fi, stripped, att, res, cy, env
vars == <<pc, cs, b, buf, idx, fi, stripped, att, res, cy, env>>

\* the host's time zone database as far as the code can tell: "host" has an entry GMT, "nogmt" has none
Envs == {"host", "nogmt"}

-----------------------------------------------------------------------------
(* the case set *)
AllOffsets == IF Tiny THEN {-840, -61, -1, 0, 1, 59, 840} ELSE -MaxOff..MaxOff      \* 2879 offsets

SweepInstants ==                                       \* <<y, m, d, second of day>>
    IF Thorough
    THEN {<<2024, 2, 29, 45296>>, <<999, 12, 31, 86399>>, <<1970, 1, 1, 0>>, <<9999, 12, 30, 43200>>, <<1, 1, 2, 1>>}
    ELSE {<<2024, 2, 29, 45296>>}

BoundaryDates ==
    {<<1, 1, 1>>, <<1, 1, 2>>, <<999, 12, 31>>, <<1000, 1, 1>>, <<1900, 2, 28>>, <<1900, 3, 1>>, <<1969, 12, 31>>,
     <<1970, 1, 1>>, <<2000, 2, 29>>, <<2000, 3, 1>>, <<2038, 1, 19>>, <<2100, 2, 28>>, <<9999, 12, 30>>,
     <<9999, 12, 31>>}
    \cup (IF Thorough
          THEN {<<y, m, d>> : y \in {4, 100, 400, 1582, 1999, 2023, 2024, 9996}, m \in {1, 2, 3, 12}, d \in {1, 28}}
               \cup {<<y, 2, 29>> : y \in {4, 400, 1600, 2024, 9996}}
               \cup {<<y, 12, 31>> : y \in {1, 99, 100, 1899, 1999, 2000, 9998}}
          ELSE {})
BoundarySods == IF Tiny THEN {0, 86399} ELSE IF Thorough THEN {0, 1, 3599, 43200, 86340, 86399} ELSE {0, 11696, 86399}
BoundaryOffsets ==
    IF Tiny THEN {0, 1, -59, 840} ELSE
    {0, 1, -1, 30, -30, 59, -59, 60, -60, 330, -210, 840, -840, 1439, -1439}
    \cup (IF Thorough THEN {61, -61, 345, -345, 720, -720, 1380, -1380, 1438, -1438} ELSE {})

\* first and last second of the domain: every offset (negative ones give local year 0000, positive ones 10000)
EdgeInstants == {<<1, 1, 1, 0>>, <<9999, 12, 31, 86399>>}
\* thorough: every offset; quick: every quarter hour, every offset within +-61 minutes, and the extremes
EdgeOffsets == IF Thorough THEN AllOffsets
               ELSE {o \in AllOffsets : o % 15 = 0 \/ Abs(o) <= 61 \/ Abs(o) >= MaxOff - 1}

Case(t, s, o, sw, ed) == [day |-> DaysFromCivil(t[1], t[2], t[3]), sod |-> s, off |-> o, sweep |-> sw, edge |-> ed]
Inst(c) == [day |-> c.day, sod |-> c.sod]
Expr(c) == Expressible(Inst(c), c.off)

Cases ==
    {c \in {Case(t, t[4], o, TRUE, FALSE) : t \in SweepInstants, o \in AllOffsets}
           \cup {Case(t, t[4], o, TRUE, TRUE) : t \in EdgeInstants, o \in EdgeOffsets}
           \cup {Case(t, s, o, FALSE, FALSE) : t \in BoundaryDates, s \in BoundarySods, o \in BoundaryOffsets} :
       InDomain(Inst(c), c.off)}
\* stepped through the actions of the code: the boundary cases, and (thorough) the offset sweeps at ordinary instants;
\* in one step (function forms): the edge sweeps, pairs without a date string, and (quick) the ordinary sweep
Stepped(c)  == ~c.edge /\ Expr(c) /\ (Thorough \/ ~c.sweep)
StepCases   == {c \in Cases : Stepped(c)}
DirectCases == {c \in Cases : ~Stepped(c)}       \* (not Cases \ StepCases: TLC would test membership by enumeration)

CalYears == IF Thorough THEN 1..9999
            ELSE {1, 2, 3, 4, 5, 99, 100, 101, 399, 400, 401, 999, 1000, 1582, 1899, 1900, 1901, 1969, 1970, 1999,
                  2000, 2001, 2023, 2024, 2025, 2037, 2038, 2099, 2100, 2101, 2399, 2400, 9996, 9998, 9999}

-----------------------------------------------------------------------------
(* the strings of the forms, as the conversions produce them; sweep cases use the forms that   *)
(* depend on the offset (quick: the full form only; min with offsets comes from the boundary set) *)
FormNames == <<"full", "min", "fullZ", "minZ", "date">>
NForms(c) == IF ~Expr(c) THEN 0 ELSE IF c.edge THEN 2 ELSE IF c.sweep THEN (IF Thorough THEN 2 ELSE 1) ELSE 5
Input(c, k, produced) ==
    CASE k = 1 -> produced                      \* the string the backend itself produced
      [] k = 2 -> FmtMin(Inst(c), c.off)
      [] k = 3 -> ImplFmtUtc(Inst(c))          \* what the UTC types produce
      [] k = 4 -> FmtMinZ(Inst(c))
      [] k = 5 -> FmtDate(Inst(c))

Init ==
    /\ pc = "idle" /\ cs = [day |-> 0, sod |-> 0, off |-> 0, sweep |-> FALSE, edge |-> FALSE] /\ b = "none"
    /\ buf = <<>> /\ idx = 0 /\ fi = 0 /\ stripped = <<>> /\ att = 0 /\ res = <<>> /\ cy = 0 /\ env = "host"

CalYear ==
    /\ pc = "idle"
    /\ \E y \in CalYears : cy' = y
    /\ pc' = "cal"
    /\ UNCHANGED <<cs, b, buf, idx, fi, stripped, att, res, env>>

\* the environment dimension is explored on the boundary cases at midnight (every form), in the model for the one
\* backend whose steps consult the zone database (the replay parses these cases with every reader in every environment)
EnvsOf(c) == IF ~c.sweep /\ c.sod = 0 THEN Envs ELSE {"host"}

\* Object::from(date): strftime (chrono, jiff) or the format description (time)
Pick ==
    /\ pc = "idle"
    /\ \E c \in StepCases, bk \in Backends :
          /\ cs' = c /\ b' = bk /\ env' \in (IF bk = "jiff" THEN EnvsOf(c) ELSE {"host"})
          /\ IF bk = "time"
             THEN buf' = ImplFmtTime(Inst(c), c.off) /\ idx' = 0 /\ pc' = "formatted"
             ELSE buf' = ImplRawFmt(Inst(c), c.off) /\ idx' = Len(buf') /\ pc' = "convert"
    /\ UNCHANGED <<fi, stripped, att, res, cy>>

ImplFmtB(bk, i, off) == IF bk = "chrono" THEN ImplFmtChronoLocal(i, off, Dev_y10k) ELSE ImplFmt(bk, i, off)

\* the same conversions in one step (function forms).  A wall clock in year 10000 exists as a chrono value only:
\* jiff's and time's types cannot hold it.
PickDirect ==
    /\ pc = "idle"
    /\ \E c \in DirectCases : \E bk \in (IF Expr(c) THEN Backends ELSE {"chrono"}) : cs' = c /\ b' = bk
    /\ pc' = "direct"
    /\ UNCHANGED <<buf, idx, fi, stripped, att, res, cy, env>>

Direct ==
    /\ pc = "direct"
    /\ buf' = ImplFmtB(b, Inst(cs), cs.off)
    /\ fi' = NForms(cs)
    /\ res' = [k \in 1..NForms(cs) |-> ImplParseEnv(b, Input(cs, k, buf'), Dev_h41, Dev_gmt, TRUE)]
    /\ pc' = "done"
    /\ UNCHANGED <<cs, b, idx, stripped, att, cy, env>>

\* one iteration of `while let Some(last) = bytes[..index].last_mut()`
ConvertStep ==
    /\ pc = "convert"
    /\ IF idx = 0 THEN pc' = "formatted" /\ UNCHANGED <<buf, idx>>
       ELSE IF buf[idx] = cColon THEN buf' = [buf EXCEPT ![idx] = cApos] /\ pc' = "formatted" /\ UNCHANGED idx
       ELSE idx' = idx - 1 /\ UNCHANGED <<buf, pc>>
    /\ UNCHANGED <<cs, b, fi, stripped, att, res, cy, env>>

\* as_datetime(): datetime_string filters the bytes of the next form
StripStep ==
    /\ pc \in {"formatted", "parsed"} /\ fi < NForms(cs)
    /\ fi' = fi + 1 /\ stripped' = Strip(Input(cs, fi + 1, buf)) /\ att' = 1 /\ pc' = "try"
    /\ UNCHANGED <<cs, b, buf, idx, res, cy, env>>

\* one link of the or_else chain
Attempt ==
    /\ pc = "try"
    /\ LET as == Attempts(b, Dev_h41)
           r  == RunAttempt(b, as[att], stripped, Dev_gmt, env = "host")
       IN IF r.ok THEN res' = Append(res, r) /\ pc' = "parsed" /\ UNCHANGED att
          ELSE IF att < Len(as) THEN att' = att + 1 /\ UNCHANGED <<res, pc>>
          ELSE res' = Append(res, ImplFail) /\ pc' = "parsed" /\ UNCHANGED att
    /\ UNCHANGED <<cs, b, buf, idx, fi, stripped, cy, env>>

Done ==
    /\ pc = "parsed" /\ fi = NForms(cs)
    /\ pc' = "done"
    /\ UNCHANGED <<cs, b, buf, idx, fi, stripped, att, res, cy, env>>

Next == CalYear \/ Pick \/ PickDirect \/ Direct \/ ConvertStep \/ StripStep \/ Attempt \/ Done
Spec == Init /\ [][Next]_vars

-----------------------------------------------------------------------------
(* declarative invariants *)
P(r) == [ok |-> r.ok, day |-> r.day, sod |-> r.sod, off |-> r.off]
Good(i, off) == [ok |-> TRUE, day |-> i.day, sod |-> i.sod, off |-> off]
Minute(i) == [day |-> i.day, sod |-> i.sod - (i.sod % 60)]

CalendarOk ==
    pc = "cal" =>
        \A n \in DaysBeforeYear(cy)..(DaysBeforeYear(cy + 1) - 1) :
            LET c == CivilFromDays(n)
            IN /\ c.y = cy /\ ValidCivil(c.y, c.m, c.d)
               /\ DaysFromCivil(c.y, c.m, c.d) = n
               /\ n < MaxDay => CivilFromDays(n + 1) = Succ(c)
               /\ n = 0 => c = [y |-> 1, m |-> 1, d |-> 1]
               /\ n = MaxDay => c = [y |-> 9999, m |-> 12, d |-> 31]

\* (judged once per behaviour, in its final state: cs does not change after Pick)
RoundTrip ==
    pc = "done" =>
        LET i == Inst(cs)   off == cs.off
            pf == Parse(Fmt(i, off))   pz == Parse(FmtUtc(i))   pm == Parse(FmtMin(i, off))
            pmz == Parse(FmtMinZ(i))   pd == Parse(FmtDate(i))
        IN /\ Expr(cs) => /\ P(pf) = Good(i, off) /\ pf.form = "full" /\ pf.indom /\ Len(Fmt(i, off)) = 23
                          /\ P(pm) = Good(Minute(i), off) /\ pm.form = "min"
                          /\ Fmt(i, off)[17] = (IF off < 0 THEN cMinus ELSE cPlus)
           \* the only pairs of the domain without a date string: year 9999, carried into year 10000 by the offset
           /\ ~Expr(cs) => off > 0 /\ CivilFromDays(i.day) = [y |-> 9999, m |-> 12, d |-> 31]
                           /\ LocalOf(i, off).day = MaxDay + 1
           /\ P(pz) = Good(i, 0) /\ pz.form = "fullZ"
           /\ P(pmz) = Good(Minute(i), 0) /\ pmz.form = "minZ"
           /\ P(pd) = Good([day |-> i.day, sod |-> 0], 0) /\ pd.form = "date"
           /\ Fmt(i, 0)[17] = cPlus                    \* offset zero is written +00'00'

\* impl-shaped refines declarative
\* (buf does not change after pc = "formatted")
FmtRefines ==
    pc = "formatted" => buf = Fmt(Inst(cs), cs.off) /\ ImplFmtUtc(Inst(cs)) = FmtUtc(Inst(cs))

\* ... also for the cases converted in one step; a pair that has no date string: as the code is (Dev_y10k) the result
\* is not a date string at all, as repaired it is the date string of the same instant in UTC
FmtRefinesDone ==
    pc = "done" =>
        IF Expr(cs) THEN buf = Fmt(Inst(cs), cs.off)
        ELSE LET p == Parse(buf)
             IN IF Dev_y10k THEN ~p.ok
                ELSE p.ok /\ p.day = cs.day /\ p.sod = cs.sod /\ buf = Fmt(Inst(cs), 0)

Deviates(bk, k) == \/ Dev_h41 /\ bk = "time" /\ k >= 2       \* h41, exactly: every form but the full one
                   \/ Dev_gmt /\ bk = "jiff" /\ k = 5 /\ env = "nogmt"   \* date-only needs the GMT entry
ParseRefines ==
    pc = "done" =>
        \A k \in 1..Len(res) :
            LET want == Parse(Input(cs, k, buf))
            IN /\ want.ok /\ want.form = FormNames[k]
               /\ IF Deviates(b, k) THEN ~res[k].ok ELSE Agrees(b # "chrono", res[k], want)

FunctionForm ==
    pc = "done" => /\ buf = ImplFmtB(b, Inst(cs), cs.off)
                   /\ Len(res) = NForms(cs)
                   /\ \A k \in 1..Len(res) : res[k] = ImplParseEnv(b, Input(cs, k, buf), Dev_h41, Dev_gmt, env = "host")

Terminates == idx \in 0..23 /\ att \in 0..5 /\ fi \in 0..5 /\ Len(res) <= fi

\* predictions of the impl-shaped layer for the replay (drift measurement only)
\* (the replay always carries full, min and fullZ — every string a conversion produces — and all five for boundary cases)
EmitForms(c) == IF ~Expr(c) THEN 0 ELSE IF c.sweep THEN 3 ELSE 5
ImplOk(bk, c, gmt) == [k \in 1..EmitForms(c) |->
                         ImplParseEnv(bk, Input(c, k, Fmt(Inst(c), c.off)), Dev_h41, Dev_gmt, gmt).ok]
ImplOks(c, gmt) == [chrono |-> ImplOk("chrono", c, gmt), jiff |-> ImplOk("jiff", c, gmt), time |-> ImplOk("time", c, gmt)]

\* one literal of the replay case: the bytes, what they denote, and the class of the input
Lit(s) == LET w == Parse(s)
          IN [s |-> s, want |-> w,
              cls |-> <<w.form, OffClass(w.off), YearClass(Shift([day |-> w.day, sod |-> w.sod], w.off).day)>>]

EmitInv ==
    (Emit /\ pc = "done" /\ b = "chrono" /\ env = "host") =>
        LET i == Inst(cs)
        IN PrintT(<<"REPLAY", ToJson(
            [day |-> cs.day, sod |-> cs.sod, off |-> cs.off, sweep |-> cs.sweep,
             edge |-> cs.edge, expr |-> Expr(cs), envs |-> (EnvsOf(cs) = Envs),
             str |-> IF Expr(cs) THEN Fmt(i, cs.off) ELSE <<>>, utc |-> FmtUtc(i),
             cls_off |-> <<OffClass(cs.off), YearClass(LocalOf(i, cs.off).day)>>,
             cls_utc |-> <<"utc", YearClass(i.day)>>,
             lits |-> [k \in 1..EmitForms(cs) |-> Lit(Input(cs, k, Fmt(i, cs.off)))],
             impl |-> ImplOks(cs, TRUE),
             impl_nogmt |-> IF EnvsOf(cs) = Envs THEN ImplOks(cs, FALSE) ELSE ImplOks(cs, TRUE)])>>)
=============================================================================
