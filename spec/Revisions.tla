----------------------------- MODULE Revisions -----------------------------
(***************************************************************************)
(* Declarative meaning of a history of revisions (ISO 32000-1 7.5.6): for   *)
(* each object number, the object of the most recent revision that defines  *)
(* it; the trailer of the most recent revision.  A revision is              *)
(*   [objs |-> <<[num, gen, val]>>, comp |-> <<[cnum, members |-> <<[num, val]>>]>>, trailer |-> map] *)
(* (comp: objects stored in object streams; they have generation 0).        *)
(***************************************************************************)
EXTENDS PdfObjects


\* definitions of one revision: num -> [gen, val]
RevDefs(rev) ==
    LET plain == FoldLeft(LAMBDA acc, o : MapPut(acc, o.num, [gen |-> o.gen, val |-> o.val]), EmptyMap, rev.objs)
    IN FoldLeft(LAMBDA acc, c : FoldLeft(LAMBDA a2, m : MapPut(a2, m.num, [gen |-> 0, val |-> m.val]), acc, c.members),
                plain, rev.comp)

Overlay(older, newer) == [n \in DOMAIN older \cup DOMAIN newer |-> IF n \in DOMAIN newer THEN newer[n] ELSE older[n]]

\* View of the first j revisions
ViewUpTo(revs, j) == FoldLeft(LAMBDA acc, r : Overlay(acc, RevDefs(revs[r])), EmptyMap, [r \in 1..j |-> r])
View(revs) == ViewUpTo(revs, Len(revs))

\* numbers defined in some revision before the last and redefined later (history matters for them)
Redefined(revs) ==
    {n \in DOMAIN View(revs) : Cardinality({r \in 1..Len(revs) : n \in DOMAIN RevDefs(revs[r])}) >= 2}
=============================================================================
