----------------------------- MODULE Revisions -----------------------------
(***************************************************************************)
(* Declarative meaning of a history of revisions (ISO 32000-1 7.5.6): for   *)
(* each object number, the object of the most recent revision that defines  *)
(* it; the trailer of the most recent revision.  A revision is              *)
(*   [objs |-> <<[num, gen, val]>>, comp |-> <<[cnum, members |-> <<[num, val]>>]>>, trailer |-> map] *)
(* (comp: objects stored in object streams; they have generation 0).        *)
(*                                                                          *)
(* Free entries (7.5.4, 7.5.8.3 type 0): a revision may carry the optional  *)
(* field  free |-> <<[num, gen]>> : the object numbers its cross-reference   *)
(* section marks free; gen is the generation number the entry records, i.e. *)
(* the one the number gets when it is used again.  From that revision on    *)
(* the number denotes no object (a reference to it is a reference to null)  *)
(* until a later revision defines it again.  Records without the field      *)
(* mean what they always meant.                                             *)
(***************************************************************************)
EXTENDS PdfObjects


\* definitions of one revision: num -> [gen, val]
RevDefs(rev) ==
    LET plain == FoldLeft(LAMBDA acc, o : MapPut(acc, o.num, [gen |-> o.gen, val |-> o.val]), EmptyMap, rev.objs)
    IN FoldLeft(LAMBDA acc, c : FoldLeft(LAMBDA a2, m : MapPut(a2, m.num, [gen |-> 0, val |-> m.val]), acc, c.members),
                plain, rev.comp)

\* numbers one revision marks free: <<[num, gen]>>
RevFree(rev) == IF "free" \in DOMAIN rev THEN rev.free ELSE <<>>
FreeNums(rev) == {RevFree(rev)[i].num : i \in 1..Len(RevFree(rev))}
FreeGenOf(rev, n) == RevFree(rev)[CHOOSE i \in 1..Len(RevFree(rev)) : RevFree(rev)[i].num = n].gen

Overlay(older, newer) == [n \in DOMAIN older \cup DOMAIN newer |-> IF n \in DOMAIN newer THEN newer[n] ELSE older[n]]

\* one revision applied to the view before it: its definitions replace, its free entries delete
ApplyRev(acc, rev) ==
    LET o == Overlay(acc, RevDefs(rev))
    IN IF FreeNums(rev) = {} THEN o ELSE [n \in DOMAIN o \ FreeNums(rev) |-> o[n]]

\* View of the first j revisions
ViewUpTo(revs, j) == FoldLeft(LAMBDA acc, r : ApplyRev(acc, revs[r]), EmptyMap, [r \in 1..j |-> r])
View(revs) == ViewUpTo(revs, Len(revs))

\* numbers defined in some revision before the last and redefined later (history matters for them)
Redefined(revs) ==
    {n \in DOMAIN View(revs) : Cardinality({r \in 1..Len(revs) : n \in DOMAIN RevDefs(revs[r])}) >= 2}

-----------------------------------------------------------------------------
(* Deleted objects *)

\* numbers some revision up to j defined and that denote no object after revision j
EverDefined(revs, j) == UNION {DOMAIN RevDefs(revs[r]) : r \in 1..j}
DeletedUpTo(revs, j) == EverDefined(revs, j) \ DOMAIN ViewUpTo(revs, j)
Deleted(revs) == DeletedUpTo(revs, Len(revs))

\* the generation a deleted number gets when it is used again: recorded by the newest free entry for it
NextGenUpTo(revs, j) ==
    [n \in DeletedUpTo(revs, j) |->
        LET r == CHOOSE q \in 1..j : n \in FreeNums(revs[q]) /\ \A p \in (q + 1)..j : n \notin FreeNums(revs[p])
        IN FreeGenOf(revs[r], n)]

\* A history whose free entries follow 7.5.4: only an object of the view is freed, a revision does not both
\* define and free a number, the recorded generation is one more than the freed object's (at most 65535), and
\* a number that is used again carries the recorded generation (so it cannot live in an object stream).
HistoryOk(revs) ==
    \A r \in 1..Len(revs) :
        LET before == ViewUpTo(revs, r - 1)
            gone == IF r = 1 THEN EmptyMap ELSE NextGenUpTo(revs, r - 1)
            fr == RevFree(revs[r])
        IN /\ \A i \in 1..Len(fr) :
                 /\ fr[i].num \in DOMAIN before
                 /\ fr[i].num \notin DOMAIN RevDefs(revs[r])
                 /\ fr[i].gen = before[fr[i].num].gen + 1 /\ fr[i].gen <= 65535
                 /\ \A j \in 1..Len(fr) : fr[j].num = fr[i].num => i = j
           /\ \A n \in DOMAIN RevDefs(revs[r]) \cap DOMAIN gone : RevDefs(revs[r])[n].gen = gone[n]
=============================================================================
