SPECIFICATION Spec
CONSTANTS
  Devs <- DevBoth
  Ops <- OpsIns
  ByteStrings <- BytesQuick
  NumSeqs <- NumsQuick
  NewObjs <- MCNewObjs
  MaxDepth = 3
  Starts <- StartsIns
  Allowed = {}
  Emit = TRUE
  EmitMod = 150
  EmitModV = 25
VIEW View
INVARIANTS Refines StartOk EmitViolations
CHECK_DEADLOCK FALSE
