SPECIFICATION Spec
CONSTANTS
  Devs <- DevAll
  Ops <- OpsIns
  ByteStrings <- BytesQuick
  NumSeqs <- NumsQuick
  NewObjs <- MCNewObjs
  MaxDepth = 3
  Starts <- StartsIns
  Allowed = {"content.sharedStream", "resources.nameCollision"}
  Emit = TRUE
  EmitMod = 150
  EmitModV = 25
VIEW View
INVARIANTS Refines StartOk EmitViolations
CHECK_DEADLOCK FALSE
