SPECIFICATION Spec
CONSTANTS
  Layouts <- LayoutsLater
  DangIds <- DangQuick
  Starts = {1, 2, 5}
  DevChain = FALSE
  DevDang = FALSE
  DevUnder = FALSE
  DevDup = TRUE
  DevClash = TRUE
  DevBmDang = TRUE
  DevReach = FALSE
  DevZero = FALSE
  DevFit = "none"
  Limit = 20
  Allowed = {"ok", "pageorder.dupkids", "pageorder.numclash", "bookmark.dangling.capture"}
  Emit = TRUE
  EmitMod = 1
INVARIANTS Refines Consistent FunctionForm RepairedRefines EmitInv
CHECK_DEADLOCK FALSE
