SPECIFICATION FairSpec
CONSTANTS
  Variant = "asis"
  MaxIntr = 1
  KeepHist = FALSE
  MaxCalls = 3
  MinBuf = 0
  MaxBuf = 2
  RawChoices = {FALSE, TRUE}
  DevIgnoredWrite = FALSE
  DevMutatesDoc = FALSE
  Emit = FALSE
INVARIANTS TypeOK
PROPERTIES ErrSurfacesLive
CHECK_DEADLOCK FALSE
