SPECIFICATION Spec
CONSTANTS
  MaxB = 3
  NPs = {1, 2}
  Titles <- TitleClasses
  Emit = TRUE
INVARIANTS RefinesForest RefinesAdjust RefinesFresh RefinesLinks RefinesCarries RefinesToc Verdict EmitInv
CHECK_DEADLOCK FALSE
