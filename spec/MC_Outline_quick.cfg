SPECIFICATION Spec
CONSTANTS
  MaxB = 3
  NPs = {1, 2}
  MaxPost = 1
  Reserve = TRUE
  Titles <- TitleClasses
  Emit = TRUE
INVARIANTS RefinesForest RefinesAdjust RefinesFresh RefinesLinks RefinesCarries RefinesToc Verdict EmitInv
PROPERTIES Reserved
CHECK_DEADLOCK FALSE
