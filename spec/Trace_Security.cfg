SPECIFICATION Spec
CONSTANTS
  Dev_h12 = FALSE
  Dev_h13 = TRUE
  Dev_t127 = TRUE
  Dev_mdict = TRUE
  Dev_dparr = TRUE
POSTCONDITION Consumed
CHECK_DEADLOCK FALSE
