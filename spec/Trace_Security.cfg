SPECIFICATION Spec
CONSTANTS
  Dev_h12 = FALSE
  Dev_h13 = FALSE
  Dev_t127 = FALSE
  Dev_mdict = FALSE
  Dev_drop = FALSE
  Dev_cryptv = FALSE
  Dev_mdstr = FALSE
  Dev_osres = FALSE
  Dev_cind = FALSE
  Dev_osrep = FALSE
  Dev_dparr = FALSE
POSTCONDITION Consumed
CHECK_DEADLOCK FALSE
