SPECIFICATION Spec
CONSTANTS
  MaxSteps = 3
  DevAvg = FALSE
  DevArr = FALSE
  DevStale = FALSE
INVARIANTS LengthInv StepOK WitnessPrint
CHECK_DEADLOCK FALSE
