SPECIFICATION Spec
CONSTANTS
  MaxSteps = 4
  DevAvg = FALSE
  DevArr = FALSE
  DevStale = FALSE
  DevEmpty = FALSE
  Disturbs = FALSE
  DevRows = FALSE
  DevInd = FALSE
INVARIANTS LengthInv StepOK WitnessPrint ActionPrint
CHECK_DEADLOCK FALSE
