SPECIFICATION Spec
CONSTANTS
  MaxSteps = 4
  DevAvg = FALSE
  DevArr = FALSE
  DevStale = FALSE
  DevEmpty = FALSE
INVARIANTS LengthInv StepOK WitnessPrint ActionPrint
CHECK_DEADLOCK FALSE
