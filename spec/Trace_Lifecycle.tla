-------------------------- MODULE Trace_Lifecycle --------------------------
(* impl -> spec for C01 / C03: every record is one public call of lopdf (Save of a projected     *)
(* document producing bytes; Load of the last saved bytes producing a projected document).       *)
(* The trace spec carries `disk` = the strict reading of the last saved file and judges each     *)
(* call with Lifecycle!JudgeSave / JudgeLoad.  A rejected Save leaves nothing to load against:   *)
(* the following Load is reported as skipped until the next Save or Reset.                        *)
EXTENDS Lifecycle, Json, IOUtils, TLC

\* TLC orders record fields by first mention while parsing (root module first): the kind field `k` must come
\* before the payload fields so that object values of different kinds are unequal without their payloads
\* ever being compared (a function-valued `v` against a sequence-valued one is a TLC evaluation error).
KindFirst_Trace_Lifecycle(o) == <<o.k, o.neg, o.v, o.w>>

Recs == ndJsonDeserialize(IOEnv.TRACE)

VARIABLES l, disk, saved, dbytes

NoDisk == [ok |-> FALSE]

Out(i, rec, verdict, rt) ==
    PrintT(<<"VERDICT", ToJson([i |-> i, ev |-> rec.ev, v |-> verdict.v, d |-> verdict, rt |-> rt])>>)

NoDoc == [none |-> TRUE]

Init == l = 1 /\ disk = NoDisk /\ saved = NoDoc /\ dbytes = <<>>

DoReset == /\ Recs[l].ev = "Reset" /\ disk' = NoDisk /\ saved' = NoDoc /\ dbytes' = <<>> /\ l' = l + 1

DoSave ==
    /\ Recs[l].ev = "Save"
    /\ LET rec == Recs[l]
           doc == DocOf(rec.doc)
           ver == IF InDomain(doc) THEN JudgeSave(doc, rec.fmt, rec.res, rec.bytes) ELSE [v |-> "ok-out-of-domain"]
       IN /\ Out(l, rec, ver, [v |-> "ok-na"])
          /\ disk' = IF rec.res = "ok" THEN RdFile(rec.bytes) ELSE NoDisk
          /\ saved' = IF InDomain(doc) THEN doc ELSE NoDoc
          /\ dbytes' = rec.bytes
    /\ l' = l + 1

DoLoad ==
    /\ Recs[l].ev = "Load"
    /\ LET rec == Recs[l]
           loaded == DocOf(rec.doc)
           ver == IF disk.ok THEN JudgeLoad(loaded, rec.res, disk, dbytes) ELSE [v |-> "ok-skipped"]
           rt  == IF "none" \in DOMAIN saved THEN [v |-> "ok-skipped"]
                  ELSE IF rec.res # "ok" THEN [v |-> "rt-load-failed", res |-> rec.res]
                  ELSE JudgeRoundTrip(saved, loaded)
       IN Out(l, rec, ver, rt)
    /\ UNCHANGED <<disk, saved, dbytes>>
    /\ l' = l + 1

\* a file produced by somebody else (the specification's Producer): nothing to judge, it becomes the disk
DoFile ==
    /\ Recs[l].ev = "File"
    /\ LET rd == RdFile(Recs[l].bytes) IN
          /\ disk' = rd
          /\ Out(l, Recs[l], IF rd.ok THEN [v |-> "ok"] ELSE [v |-> "producer-file-rejected-by-strict-reader", err |-> rd.err], [v |-> "ok-na"])
    /\ saved' = NoDoc /\ dbytes' = Recs[l].bytes
    /\ l' = l + 1

\* IncrementalDocument::save_to: the previous file is `dbytes` (strict reading `disk`)
DoSaveInc ==
    /\ Recs[l].ev = "SaveInc"
    /\ LET rec == Recs[l]
           newdoc == DocOf(rec.newdoc)
           ver == IF ~disk.ok THEN [v |-> "ok-skipped"]
                  ELSE JudgeSaveInc(newdoc, rec.res, disk, dbytes, rec.bytes, rec.prev_before, rec.prev_after)
       IN /\ Out(l, rec, ver, [v |-> "ok-na"])
          /\ disk' = IF rec.res = "ok" THEN RdFile(rec.bytes) ELSE NoDisk
          /\ dbytes' = rec.bytes
          /\ saved' = NoDoc
    /\ l' = l + 1

\* IncrementalDocument::load_from failed on a file that the strict reader accepts
DoLoadInc ==
    /\ Recs[l].ev = "LoadInc"
    /\ Out(l, Recs[l], IF disk.ok THEN [v |-> "loadinc-failed", res |-> Recs[l].res] ELSE [v |-> "ok-skipped"], [v |-> "ok-na"])
    /\ UNCHANGED <<disk, saved, dbytes>>
    /\ l' = l + 1

Next == l <= Len(Recs) /\ (DoReset \/ DoSave \/ DoLoad \/ DoFile \/ DoSaveInc \/ DoLoadInc)
Spec == Init /\ [][Next]_<<l, disk, saved, dbytes>>
Consumed == TLCGet("stats").diameter = Len(Recs) + 1
=============================================================================
