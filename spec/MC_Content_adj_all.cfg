SPECIFICATION Spec
CONSTANTS
  Universe = "adj"
  Emit = FALSE
  SepMode = "all"
INVARIANTS RoundTrip EmitInv
CHECK_DEADLOCK FALSE
