----------------------------- MODULE MC_Outline -----------------------------
(* Exhaustive exploration of OutlineSys: every add sequence of up to MaxB bookmarks (= every    *)
(* ordered forest in every attach order), every page assignment over np pages with the zero     *)
(* page on parents, titles of the classes empty / ASCII with delimiters / Latin-1 / BMP /       *)
(* astral pairwise distinct.  Invariants: the impl-shaped layer refines the declarative one.    *)
(* With Emit = TRUE every complete behaviour is printed for replay into lopdf together with     *)
(* what the declarative layer expects.                                                          *)
EXTENDS OutlineSys, Json

CONSTANT Emit

\* empty; ASCII with ( ) \ CR; Latin-1; BMP whose UTF-16 bytes are 28 5C / 0D 0A; astral + ASCII
TitleClasses == << <<>>, <<65, 40, 92, 41, 41, 13, 98>>, <<233, 116, 233>>, <<20013, 10332, 3338>>, <<128512, 97, 66560>> >>

Built == pc \in {"post", "toc", "save", "done"}

Og == ImplOg(doc, Base(np), PageIds(np), doc.later)

\* the pending forest is the declared one
RefinesForest ==
    pc \in {"add", "build"} =>
        /\ bm.bms = Roots(adds)
        /\ \A k \in 1..Len(adds) : bm.tbl[k].children = ChildrenOf(adds, k) /\ bm.tbl[k].title = adds[k].title

RefinesAdjust == (pc = "build" /\ adjusted) => \A k \in 1..Len(adds) : bm.tbl[k].page = AdjPage(adds)[k]

Pages == IF adjusted THEN AdjPage(adds) ELSE [k \in 1..Len(adds) |-> adds[k].page]

RefinesFresh   == Built => Identified(adds, Og) /\ Fresh(adds, Og)
                           /\ doc.maxid = Max(NewIds(adds, Og) \cup SeqSet(doc.later))
\* action form of "the ids stay reserved": an allocation never lands on an object of the outline
Reserved       == [][pc = "post" => \A i \in DOMAIN doc.objs : i \in DOMAIN doc'.objs /\ doc'.objs[i] = doc.objs[i]]_vars
RefinesLinks   == Built => Links(adds, Og)
RefinesCarries == Built => Carries(adds, Og, Pages, PageIds(np))
RefinesToc     == \A i \in 1..Len(tocs) : TocIs(tocs[i], ReadBackWith(adds, Pages))
\* "any depth": no forest makes a walker run out of stack
NoAbort        == pc # "abort"
\* build_outline may only decline when the object numbers do not suffice, and then it changes nothing
RefusedOk      == pc = "refused" => ~Enough /\ doc = InitDoc(np)
Verdict        == pc = "done" => Judge(adds, np, PageIds(np), adjusted, Og, tocs) = "ok"

NoRoom == 999999      \* "the numeric limit is far away"

EmitInv ==
    (Emit /\ pc \in {"done", "refused"}) =>
        PrintT(<<"REPLAY", ToJson([np |-> np, adds |-> adds, adjust |-> adjusted, post |-> doc.post, link |-> doc.link,
                                   dests |-> env.dsp, room |-> IF env.idlimit < 1000 THEN Room ELSE NoRoom,
                                   exp |-> IF pc = "refused"
                                           THEN [refused |-> TRUE]
                                           ELSE [refused |-> FALSE,
                                                 toc |-> ReadBackWith(adds, Pages),
                                                 pages |-> Pages,
                                                 pre |-> PreOrder(adds),
                                                 ids |-> [root |-> doc.root - Base(np), max |-> Og.items[Len(Og.items)].aid - Base(np),
                                                          items |-> [j \in 1..Len(Og.items) |-> Og.items[j].id - Base(np)]]]])>>)
=============================================================================
