SPECIFICATION Spec
CONSTANTS
  Universe = "inlq"
  Emit = FALSE
  SepMode = "min"
INVARIANTS RoundTrip EmitInv
CHECK_DEADLOCK FALSE
