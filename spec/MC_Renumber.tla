---------------------------- MODULE MC_Renumber ----------------------------
(* Exhaustive exploration of Renumber: every document of a family of small layouts               *)
(*   catalog -> page-tree root -> k pages (each with a Parent back-reference: cycles), m further   *)
(*   objects with reference slots, trailer with Root and an optional Info slot                     *)
(* over every injective assignment of (sparse) object numbers to the objects -- so page ids are in *)
(* any order relative to page order --, generations in {0,1}, every filling of at most lay.refs    *)
(* reference slots with an existing object (shared, cyclic, self references) or a dangling id,      *)
(* bookmarks on pages (and the conventional (0,0)), and every start value of Starts.  The call is   *)
(* then run action by action (RenumberSys) and its result judged by the declarative layer.          *)
(*                                                                                                  *)
(* Refines:          every failing clause (tag) of the verdict is in Allowed.  "As the code is" all  *)
(*                   Dev* switches are FALSE (fix: commits 15b16d5, c3b4cbb, 056314e, 07306e7,       *)
(*                   f680fb8, 8f131f7, a548fc6) and Allowed = {"ok"}: no counter-example.  The cfgs  *)
(*                   *_seeded and *_seeded2 seed the repaired defects back into the design (negative *)
(*                   controls): Allowed lists exactly the tags of those former findings.             *)
(* RepairedRefines:  the variant without any deviation (NoDev) is Acceptable on the same document.   *)
(* Consistent:       Acceptable <=> Fails = {} (the two formulations of the declarative layer).     *)
(* FunctionForm:     the action-by-action run equals ImplRun.                                       *)
(* With Emit = TRUE every completed case is printed as one JSON line for replay into lopdf.         *)
EXTENDS RenumberSys, Json, IOUtils, FiniteSetsExt

CONSTANTS Layouts,      \* set of layout records (see Lay)
          DangIds,      \* ids offered as dangling targets (those that name an object are dropped)
          Starts,       \* starting_id values (0 is always offered for the empty document)
          DevUnder,     \* TRUE = the repaired defect: `new_id - 1` on an empty document with start 0 panics
          Allowed,      \* clause tags the run may produce ("ok" stands for none)
          Emit, EmitMod

VARIABLES lay, ids, slots,
          acts    \* history: names of the actions taken so far (anti-vacuity bookkeeping, printed with the case)

vars == <<rvars, lay, ids, slots, acts>>

Took(name) == acts' = acts \cup {name}

\* A layout: n objects, k of them pages of a page tree (tree = TRUE: catalog, root, k pages, the rest
\* further objects; tree = FALSE: n further objects and no Root), numbers drawn from nums, at most g1
\* objects of generation 1, at most refs optional reference slots filled, further objects with slots
\* A and B (two) or only A, at most bms bookmarks, zero: the (0,0) bookmark target is offered,
\* red: reduction -- catalog number < root number and both of generation 0 (the algorithm treats all
\* non-page objects alike), shared: two objects may share a number (with different generations),
\* deep: every optional reference slot holds its reference as the innermost leaf of this many nested
\* arrays / dictionaries (Deep(L, 47): the reference sits in the 48th container of its indirect object,
\* resp. the 47th below the trailer -- the parser's nesting limit).
Lay(n, k, tree, nums, g1, refs, two, bms, zero, red) ==
    [n |-> n, k |-> k, tree |-> tree, nums |-> nums, g1 |-> g1, refs |-> refs, two |-> two, bms |-> bms,
     zero |-> zero, red |-> red, shared |-> FALSE, deep |-> 0, dupk |-> FALSE, bdang |-> {},
     bunr |-> FALSE, s0 |-> FALSE, gv |-> 1, fit |-> FALSE]
Deep(L, d) == [L EXCEPT !.deep = d]
\* dupk: the first page is listed a second time at the end of Kids ([P1, P2, P1]); bdang: ids offered as
\* bookmark targets although they name no object; shared: see above
WithDup(L)        == [L EXCEPT !.dupk = TRUE]
WithBmDang(L, S)  == [L EXCEPT !.bdang = S]
Shared(L)         == [L EXCEPT !.shared = TRUE]

\* small page tree whose slots are nested d deep / whose <= 3 bookmarks include the (0,0) target (the
\* harness hangs the bookmarks of a case together as roots, children, grandchildren or loose entries)
LayDeep(d) == Deep(Lay(3, 1, TRUE, {1, 3, 5}, 0, 1, FALSE, 1, FALSE, TRUE), d)
LayBm3     == Lay(4, 2, TRUE, {1, 2, 3, 5}, 0, 0, FALSE, 3, TRUE, TRUE)
\* a page listed twice / bookmarks on ids that name nothing (inside and outside the new range) / two
\* live objects under one number with different generations (a page can be re-keyed onto a non-page)
LayDup2    == WithDup(Lay(4, 2, TRUE, {1, 2, 3, 5}, 0, 0, FALSE, 1, FALSE, TRUE))
LayDup3    == WithDup(Lay(5, 3, TRUE, {1, 2, 3, 4, 6}, 0, 0, FALSE, 1, FALSE, TRUE))
LayBmDang  == WithBmDang(Lay(3, 1, TRUE, {1, 3, 5}, 0, 0, FALSE, 2, FALSE, TRUE), {<<2, 0>>, <<9, 0>>})
LayShared2 == Shared(Lay(4, 2, TRUE, {1, 2, 3}, 2, 0, FALSE, 1, FALSE, TRUE))
LayShared1 == Shared(Lay(4, 1, TRUE, {1, 2, 3}, 2, 1, FALSE, 1, FALSE, TRUE))
\* audit shapes: bunr -- the further objects (with their reference slot; the trailer need not reach them) are
\* offered as bookmark targets; s0 -- start value 0 is offered (with the (0,0) bookmark target, dangling
\* references and gv = 65535 as the non-zero generation, so the object that receives number 0 can carry
\* the generation of the dangling sink); fit -- the exact-fit start value Limit - n + 1 is offered
LayBmUnr   == [Lay(4, 1, TRUE, {1, 2, 3, 5}, 0, 1, FALSE, 1, FALSE, TRUE) EXCEPT !.bunr = TRUE]
LayBmUnrS  == [Lay(2, 0, FALSE, {1, 3}, 0, 1, FALSE, 1, FALSE, TRUE) EXCEPT !.bunr = TRUE]     \* no page tree at all
LayStart0  == [Lay(3, 1, TRUE, {1, 3, 5}, 1, 1, FALSE, 2, TRUE, TRUE) EXCEPT !.s0 = TRUE, !.gv = 65535]
LayFit3    == [Lay(3, 1, TRUE, {1, 3, 5}, 0, 0, FALSE, 1, FALSE, TRUE) EXCEPT !.fit = TRUE]
LayFit1    == [Lay(1, 0, FALSE, {1, 3}, 0, 1, FALSE, 0, FALSE, TRUE) EXCEPT !.fit = TRUE]
LayShared3 == Shared(Lay(5, 3, TRUE, {1, 2, 3}, 2, 0, FALSE, 0, FALSE, TRUE))     \* two of three pages under one number

LayoutsQuick ==
    {Lay(0, 0, FALSE, {1}, 0, 1, FALSE, 0, FALSE, TRUE),
     Lay(1, 0, FALSE, {1, 2, 3, 5}, 1, 1, FALSE, 0, FALSE, TRUE),
     Lay(2, 0, FALSE, {1, 3}, 1, 2, FALSE, 0, FALSE, TRUE),
     Lay(3, 1, TRUE, {1, 2, 3, 5}, 1, 1, FALSE, 1, FALSE, TRUE),
     Lay(4, 2, TRUE, {1, 2, 3, 5}, 1, 1, FALSE, 2, FALSE, TRUE),
     Lay(4, 1, TRUE, {1, 2, 3, 5}, 0, 1, FALSE, 1, FALSE, TRUE),
     LayDeep(47), LayBm3, LayDup2, LayBmDang, LayShared2, LayBmUnr, LayStart0, LayFit3, LayFit1}

\* Negative controls of the declarative layer (the repaired defects seeded back into the design):
\*  MC_Renumber_quick_seeded.cfg   bookmark.chain, dangling.capture, dangling.capture.pageorder, panic.empty0
\*                                 (DevChain, DevDang, DevUnder and, for the page-order capture, DevClash)
\*                                 on the layouts that do not have the shapes of the later three;
\*  MC_Renumber_quick_seeded2.cfg  pageorder.dupkids, pageorder.numclash, bookmark.dangling.capture
\*                                 (DevDup, DevClash, DevBmDang) on the layouts that have those shapes.
LayoutsFormer == {Lay(0, 0, FALSE, {1}, 0, 1, FALSE, 0, FALSE, TRUE),
                  Lay(3, 1, TRUE, {1, 2, 3, 5}, 1, 1, FALSE, 1, FALSE, TRUE),
                  Lay(4, 2, TRUE, {1, 2, 3, 5}, 1, 1, FALSE, 2, FALSE, TRUE)}
LayoutsLater  == {LayDup2, LayBmDang, LayShared2, Lay(0, 0, FALSE, {1}, 0, 0, FALSE, 0, FALSE, TRUE)}
\*  MC_Renumber_quick_seeded3.cfg  bookmark.target.unreachable, start0.capture, panic.exactfit (DevReach,
\*                                 DevZero, DevFit = "panic") on the audit layouts; _seeded4: DevFit = "wrap",
\*                                 max_id.exactfit.
LayoutsAudit  == {LayBmUnrS, LayStart0, LayFit3, LayFit1, Lay(0, 0, FALSE, {1}, 0, 0, FALSE, 0, FALSE, TRUE)}
LayoutsFit    == {LayFit3, LayFit1, Lay(0, 0, FALSE, {1}, 0, 0, FALSE, 0, FALSE, TRUE)}

LayoutsThorough ==
    {Lay(0, 0, FALSE, {1}, 0, 1, FALSE, 0, FALSE, FALSE),
     Lay(1, 0, FALSE, {1, 2, 3, 5}, 1, 1, FALSE, 0, FALSE, FALSE),
     Lay(2, 0, FALSE, {1, 2, 3, 5}, 1, 2, FALSE, 0, FALSE, FALSE),
     Lay(3, 0, FALSE, {1, 2, 3, 5}, 2, 2, FALSE, 0, FALSE, FALSE),
     Lay(3, 1, TRUE, {1, 2, 3, 5}, 1, 1, FALSE, 1, TRUE, FALSE),
     Lay(4, 2, TRUE, {1, 2, 3, 5}, 1, 2, FALSE, 2, TRUE, TRUE),
     Lay(4, 2, TRUE, {1, 2, 3, 5}, 2, 1, FALSE, 2, FALSE, TRUE),
     Lay(4, 1, TRUE, {1, 2, 3, 5}, 1, 2, FALSE, 1, FALSE, TRUE),
     Lay(5, 3, TRUE, {1, 2, 3, 4, 6}, 1, 1, FALSE, 3, FALSE, TRUE),
     Lay(5, 2, TRUE, {1, 2, 3, 4, 6}, 0, 1, FALSE, 2, FALSE, TRUE),
     LayDeep(1), LayDeep(2), LayDeep(10), LayDeep(46), LayDeep(47), LayBm3,
     LayDup2, LayDup3, LayBmDang, LayShared2, LayShared1, LayShared3, LayBmUnr, LayStart0, LayFit3, LayFit1}

\* smallest layout that takes every action (coverage run)
LayoutsCov == {Lay(0, 0, FALSE, {1}, 0, 0, FALSE, 0, FALSE, TRUE), Lay(4, 2, TRUE, {1, 2, 3, 5}, 0, 0, FALSE, 1, FALSE, TRUE)}

DangQuick    == {<<2, 0>>, <<3, 1>>, <<9, 0>>}
DangThorough == {<<2, 0>>, <<3, 1>>, <<4, 0>>, <<9, 0>>}

Roles(L)   == 1..L.n
PageRoles(L)  == IF L.tree THEN 3..(2 + L.k) ELSE {}
OtherRoles(L) == IF L.tree THEN (3 + L.k)..L.n ELSE 1..L.n

SlotSet(L) == {<<0, "I">>}
              \cup (IF L.tree /\ L.k >= 1 THEN {<<3, "A">>} ELSE {})
              \cup {<<r, "A">> : r \in OtherRoles(L)}
              \cup (IF L.two THEN {<<r, "B">> : r \in OtherRoles(L)} ELSE {})

-----------------------------------------------------------------------------
(* building the document *)

Name(bytes) == [k |-> "name", v |-> bytes]
IntObj(x)      == [k |-> "int", v |-> ToString(x)]
KN          == <<78>>

\* o inside d nested containers: arrays, every fourth level a dictionary (the wire JSON of a dictionary
\* level is one level deeper than that of an array level, and the harness's JSON reader stops at 128)
RECURSIVE Wrap(_, _)
Wrap(o, d) == IF d = 0 THEN o
              ELSE IF d % 4 = 0 THEN [k |-> "dict", v |-> << <<KA, Wrap(o, d - 1)>> >>]
              ELSE [k |-> "arr", v |-> <<Wrap(o, d - 1)>>]
OptW(key, id, d) == IF id = NoId THEN <<>> ELSE << <<key, Wrap(MkRef(id), d)>> >>
SlotOf(sl, x) == IF x \in DOMAIN sl THEN sl[x] ELSE NoId

ObjOfRole(L, idf, sl, r) ==
    IF L.tree /\ r = 1
    THEN [k |-> "dict", v |-> << <<KPages, MkRef(idf[2])>>, <<KType, Name(KCatalog)>> >>]
    ELSE IF L.tree /\ r = 2
    THEN [k |-> "dict", v |-> << <<KCount, IntObj(L.k)>>,
                                 <<KKids, [k |-> "arr", v |-> [j \in 1..L.k |-> MkRef(idf[2 + j])] \o
                                                       (IF L.dupk /\ L.k >= 1 THEN <<MkRef(idf[3])>> ELSE <<>>)]>>,
                                 <<KType, Name(KPages)>> >>]
    ELSE IF r \in PageRoles(L)
    THEN [k |-> "dict", v |-> OptW(KA, SlotOf(sl, <<r, "A">>), L.deep) \o
                              << <<KN, IntObj(r)>>, <<KParent, MkRef(idf[2])>>, <<KType, Name(KPage)>> >>]
    ELSE [k |-> "dict", v |-> OptW(KA, SlotOf(sl, <<r, "A">>), L.deep) \o OptW(KB, SlotOf(sl, <<r, "B">>), L.deep) \o
                              << <<KN, IntObj(r)>> >>]

BuildDoc(L, idf, sl, bms) ==
    LET objs    == [id \in {idf[r] : r \in Roles(L)} |-> ObjOfRole(L, idf, sl, CHOOSE r \in Roles(L) : idf[r] = id)]
        trailer == OptW(KInfo, SlotOf(sl, <<0, "I">>), L.deep) \o (IF L.tree THEN << <<KRoot, MkRef(idf[1])>> >> ELSE <<>>)
        maxn    == IF L.n = 0 THEN 0 ELSE CHOOSE m \in {idf[r][1] : r \in Roles(L)} : \A r \in Roles(L) : idf[r][1] <= m
    IN [objs |-> objs, trailer |-> trailer, max_id |-> maxn, bms |-> bms, pages |-> DeclPages(objs, trailer)]

Blank == [objs |-> <<>>, trailer |-> <<>>, max_id |-> 0, bms |-> <<>>, pages |-> <<>>]

Init ==
    /\ lay \in Layouts
    /\ ids = <<>> /\ slots = <<>> /\ acts = {}
    /\ before = Blank /\ start = 0 /\ s = ImplInit(Blank)
    /\ pc = "build1" /\ i = 0 /\ pg = <<>> /\ srt = <<>> /\ ord = <<>> /\ live = {}

\* numbers and generations
Build1 ==
    /\ pc = "build1"
    /\ \E num \in [Roles(lay) -> lay.nums] :
       \E g1 \in SUBSET Roles(lay) :
          LET idf == [r \in Roles(lay) |-> <<num[r], IF r \in g1 THEN lay.gv ELSE 0>>] IN
          /\ Cardinality(g1) <= lay.g1
          /\ \A r1, r2 \in Roles(lay) : r1 # r2 => (IF lay.shared THEN idf[r1] # idf[r2] ELSE num[r1] # num[r2])
          /\ \A r1, r2 \in OtherRoles(lay) : r1 < r2 => IdLess(idf[r1], idf[r2])  \* interchangeable objects
          /\ (lay.red /\ lay.tree) => (num[1] < num[2] /\ g1 \cap {1, 2} = {})
          /\ ids' = idf
    /\ pc' = "build2" /\ Took("Build1")
    /\ UNCHANGED <<lay, slots, before, start, s, i, pg, srt, ord, live>>

Targets == {ids[r] : r \in Roles(lay)} \cup (DangIds \ {ids[r] : r \in Roles(lay)})

\* reference slots
Build2 ==
    /\ pc = "build2"
    /\ \E sl \in [SlotSet(lay) -> Targets \cup {NoId}] :
          /\ Cardinality({x \in SlotSet(lay) : sl[x] # NoId}) <= lay.refs
          /\ slots' = sl
    /\ pc' = "build3" /\ Took("Build2")
    /\ UNCHANGED <<lay, ids, before, start, s, i, pg, srt, ord, live>>

BmTargets == {ids[r] : r \in PageRoles(lay)} \cup (IF lay.zero THEN {<<0, 0>>} ELSE {})
             \cup (lay.bdang \ {ids[r] : r \in Roles(lay)})
             \cup (IF lay.bunr THEN {ids[r] : r \in OtherRoles(lay)} ELSE {})
BmChoices == {<<>>}
             \cup (IF lay.bms >= 1 THEN {<<t>> : t \in BmTargets} ELSE {})
             \cup (IF lay.bms >= 2 THEN {<<p[1], p[2]>> : p \in {q \in BmTargets \X BmTargets : IdLess(q[1], q[2])}} ELSE {})
             \cup (IF lay.bms >= 3 THEN {<<p[1], p[2], p[3]>> : p \in {q \in BmTargets \X BmTargets \X BmTargets :
                                                                      IdLess(q[1], q[2]) /\ IdLess(q[2], q[3])}} ELSE {})

\* bookmarks and the start value: the call begins
Build3 ==
    /\ pc = "build3"
    /\ \E bms \in BmChoices : \E st \in Starts \cup (IF lay.n = 0 \/ lay.s0 THEN {0} ELSE {})
                                                \cup (IF lay.fit /\ lay.n > 0 THEN {Limit - lay.n + 1} ELSE {}) :
          LET d == BuildDoc(lay, ids, slots, bms) IN
          /\ before' = d /\ start' = st /\ s' = ImplInit(d)
    /\ pc' = "begin" /\ Took("Build3")
    /\ UNCHANGED <<lay, ids, slots, i, pg, srt, ord, live>>

BeginS       == Begin /\ UNCHANGED <<lay, ids, slots>> /\ Took("BeginS")
PagePairS    == PagePair /\ UNCHANGED <<lay, ids, slots>> /\ Took("PagePairS")
PageFinishS  == PageFinish /\ UNCHANGED <<lay, ids, slots>> /\ Took("PageFinishS")
DensePlanS   == DensePlan /\ UNCHANGED <<lay, ids, slots>> /\ Took("DensePlanS")
DensePairS   == DensePair /\ UNCHANGED <<lay, ids, slots>> /\ Took("DensePairS")
\* `new_id.saturating_sub(1)`: with DevUnder = FALSE (the code as it is) an empty document with start 0 gets max_id 0
DenseFinishS ==
    /\ DevUnder \/ start + Cardinality(live) # 0
    /\ DenseFinish /\ UNCHANGED <<lay, ids, slots>> /\ Took("DenseFinishS")
DenseFinishRepaired ==
    /\ ~DevUnder /\ pc = "dpair" /\ i > Len(ord) /\ start + Cardinality(live) = 0
    /\ s' = [FinishPass(s, live, DevChain, DevDang, DevBmDang, DenseOpt(DevRec, start, live)) EXCEPT !.max_id = 0]
    /\ pc' = "done"
    /\ UNCHANGED <<before, start, i, pg, srt, ord, live, lay, ids, slots>> /\ Took("DenseFinishRepaired")

Next == Build1 \/ Build2 \/ Build3 \/ BeginS \/ PagePairS \/ PageFinishS \/ DensePlanS \/ DensePairS
        \/ DenseFinishS \/ DenseFinishRepaired

Spec == Init /\ [][Next]_vars

-----------------------------------------------------------------------------
\* the failing clauses, classified against the algorithm this run executes (its own switches)
VerdictTags == IF s.panic THEN {"panic.empty0"} ELSE IF s.panicfit THEN {"panic.exactfit"}
               ELSE ClassifyX(before, After, start, DevRec)
Verdict     == IF s.panic THEN "panic.empty0" ELSE IF s.panicfit THEN "panic.exactfit" ELSE VerdictOf(VerdictTags)

Refines == pc = "done" => VerdictTags \subseteq Allowed          \* Allowed: set of clause tags ({} = "ok")

Consistent == (pc = "done" /\ ~s.panic /\ ~s.panicfit) => (Acceptable(before, After, start) <=> Fails(before, After, start) = {})

FunctionForm ==
    pc = "done" =>
        LET r == ImplRunX(before, start, DevRec) IN
        IF s.panic THEN r.panic
        ELSE IF s.panicfit \/ r.panicfit THEN s.panicfit /\ r.panicfit
        ELSE r.panic \/ (r.objs = s.objs /\ r.trailer = s.trailer /\ r.max_id = s.max_id /\ r.bms = s.bms)

\* the algorithm with every confirmed deviation repaired satisfies the property on the same input
RepairedRefines ==
    pc = "done" =>
        LET r == ImplRunX(before, start, NoDev) IN
        Acceptable(before, DocOfState(IF r.panic THEN [r EXCEPT !.max_id = 0] ELSE r), start)

\* deterministic sampling of the printed cases (EmitMod = 1: all)
CaseSum ==
    LET idl == SortedIds(before.objs)
    IN start * 7
       + FoldLeft(LAMBDA acc, j : acc + j * (idl[j][1] * 2 + idl[j][2]), 0, [j \in 1..Len(idl) |-> j])
       + MapThenSumSet(LAMBDA x : 5 * slots[x][1] + 3 * slots[x][2] + x[1], {x \in SlotSet(lay) : slots[x] # NoId})
       + FoldLeft(LAMBDA acc, t : acc + 11 * t[1] + t[2], 0, before.bms)

EmitPick == atoi(IOEnv.C10_PICK) % EmitMod

EmitInv ==
    \* (the few cases on the empty document are always printed: they alone take DenseFinishRepaired)
    (Emit /\ pc = "done" /\ (CaseSum % EmitMod = EmitPick \/ DOMAIN before.objs = {})) =>
        PrintT(<<"REPLAY", ToJson([before |-> JsonOfDoc(before),
                                   start  |-> start,
                                   v      |-> Verdict,
                                   panic  |-> s.panic \/ s.panicfit,
                                   limit  |-> IF before.objs # <<>> /\ start + Cardinality(DOMAIN before.objs) - 1 = Limit
                                              THEN Limit ELSE 0,
                                   needs  |-> NeedsOrdering(pg),
                                   acts   |-> acts,
                                   impl   |-> JsonOfDoc(After)])>>)
=============================================================================
