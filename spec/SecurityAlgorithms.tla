------------------------- MODULE SecurityAlgorithms -------------------------
(* C06 -- the standard security handler of ISO 32000-1 7.6 / ISO 32000-2 7.6 as a TERM LANGUAGE.   *)
(*                                                                                                *)
(* Algorithms 1, 1.A, 2, 2.A, 2.B, 3-13 are transcribed as constructors of terms over named        *)
(* inputs.  A term fixes WHICH bytes go into WHICH primitive, in which order, truncated how,       *)
(* iterated how often, in which byte order.  The primitives (MD5, SHA-256/384/512, RC4, AES block   *)
(* encryption in CBC/ECB chaining, PKCS#5 padding) are UNINTERPRETED symbols:                      *)
(*   - TLC (MC_SecurityAlgorithms) reasons about the protocol on the free term algebra modulo the   *)
(*     cancellation laws built into the smart constructors below                                    *)
(*     (Rc4(k,Rc4(k,x)) = x, CbcDec(k,iv,CbcEnc(k,iv,x)) = x, Unpkcs5(Pkcs5(x)) = x, slicing of       *)
(*     concatenations of parts of known length, Pad32 idempotent on 32-byte strings);               *)
(*   - the harness (harness/src/bin/c06.rs) EVALUATES the same terms, emitted by TLC as JSON, with   *)
(*     its own RC4 / CBC / ECB / PKCS#5 / loop control, and compares every value with lopdf.         *)
(*                                                                                                *)
(* Every term is a record of ONE shape  [op, a, n, s]  (a: sub-terms, n: integers, s: a name) so    *)
(* that TLC can compare any two terms and ToJson prints them uniformly.                            *)
(*                                                                                                *)
(*   op        a                 n            s       value                                        *)
(*   in        -                 <<len|-1>>   name    named byte-string input                      *)
(*   num       -                 -            name    named integer input (P, object/generation nr) *)
(*   ref       -                 <<len|-1>>   name    another named term of the same emission       *)
(*   var       -                 <<len|-1>>   name    loop variable                                *)
(*   lit       -                 bytes        -       literal bytes                                *)
(*   cat       parts             -            -       concatenation                                *)
(*   slice     <<x>>             <<off,len>>  -       x[off .. off+len)                            *)
(*   drop      <<x>>             <<off>>      -       x[off ..]                                    *)
(*   atmost    <<x>>             <<k>>        -       first min(k, |x|) bytes of x                 *)
(*   le        <<num term>>      <<k>>        -       low-order k bytes, low-order byte first      *)
(*   xorb      <<x>>             <<c>>        -       every byte of x XOR c                        *)
(*   rep       <<x>>             <<k>>        -       k repetitions of x                           *)
(*   md5 sha256 sha384 sha512    <<x>>                hash of x                                    *)
(*   rc4       <<key, x>>                             RC4                                          *)
(*   cbcenc cbcdec <<key, iv, x>>                     AES-CBC without padding, AES-128/256 by |key| *)
(*   ecbenc ecbdec <<key, x>>                         AES-ECB                                      *)
(*   pkcs5 unpkcs5 <<x>>                              RFC 2898 padding to 16-byte blocks / removal  *)
(*   dowhile   <<binds init, binds step, cond, result>>  <<len>>                                    *)
(*             env := init; round := 0;                                                            *)
(*             repeat (step bindings in order; round := round + 1) until cond # 0;  value = result  *)
(*   binds <<bind..>>,  bind <<t>> s=name                                                          *)
(*   int <<>> <<i>>, round, mod3 <<x>> (x as unsigned big-endian integer, mod 3), lastbyte <<x>>,    *)
(*   sel <<i, x0, x1, ..>> (the (i+1)-th alternative), geq leq sub and eq <<a, b>>, all <<bools>>    *)
(*   pw <<seg..>>, seg <<>> <<len>> id : SYMBOLIC passwords (model checking only, never emitted)    *)
EXTENDS Integers, Sequences, FiniteSets, TLC

T(op, a, n, s) == [op |-> op, a |-> a, n |-> n, s |-> s]

In(name, len)  == T("in", <<>>, <<len>>, name)
Num(name)      == T("num", <<>>, <<>>, name)
Ref(name, len) == T("ref", <<>>, <<len>>, name)
Var(name, len) == T("var", <<>>, <<len>>, name)
Lit(bytes)     == T("lit", <<>>, bytes, "")
IntC(i)        == T("int", <<>>, <<i>>, "")
Round          == T("round", <<>>, <<>>, "")
Empty          == Lit(<<>>)

\* symbolic passwords: up to three segments = bytes [0,32), [32,127), [127,..) of the prepared password
Seg(id, len) == T("seg", <<>>, <<len>>, id)
Pw(segs)     == T("pw", segs, <<>>, "")

Min(x, y) == IF x < y THEN x ELSE y

-----------------------------------------------------------------------------
(* constants of the standard *)
PadBytes == <<40, 191, 78, 94, 78, 117, 138, 65, 100, 0, 78, 86, 255, 250, 1, 8,
              46, 46, 0, 182, 208, 104, 62, 128, 47, 12, 169, 254, 100, 83, 105, 122>>   \* 28 BF 4E 5E .. 69 7A
SaltBytes == <<115, 65, 108, 84>>             \* "sAlT"
AdbBytes  == <<97, 100, 98>>                  \* "adb"
FF4       == <<255, 255, 255, 255>>
Zero16    == Lit([i \in 1..16 |-> 0])
ByteT     == 84                               \* "T"
ByteF     == 70                               \* "F"

-----------------------------------------------------------------------------
(* symbolic length of a term: -1 = unknown *)
RECURSIVE TLen(_)
SumLen(xs) ==
    LET F[i \in 0..Len(xs)] ==
            IF i = 0 THEN 0
            ELSE IF F[i - 1] < 0 \/ TLen(xs[i]) < 0 THEN -1 ELSE F[i - 1] + TLen(xs[i])
    IN F[Len(xs)]
TLen(t) ==
    CASE t.op \in {"in", "ref", "var", "seg", "dowhile"} -> t.n[1]
      [] t.op = "lit" -> Len(t.n)
      [] t.op \in {"cat", "pw"} -> SumLen(t.a)
      [] t.op = "slice" -> t.n[2]
      [] t.op = "le" -> t.n[1]
      [] t.op = "md5" -> 16
      [] t.op = "sha256" -> 32
      [] t.op = "sha384" -> 48
      [] t.op = "sha512" -> 64
      [] t.op \in {"rc4", "ecbenc", "ecbdec"} -> TLen(t.a[2])
      [] t.op \in {"cbcenc", "cbcdec"} -> TLen(t.a[3])
      [] t.op = "xorb" -> TLen(t.a[1])
      [] t.op = "rep" -> IF TLen(t.a[1]) < 0 THEN -1 ELSE t.n[1] * TLen(t.a[1])
      [] t.op = "pkcs5" -> IF TLen(t.a[1]) < 0 THEN -1 ELSE ((TLen(t.a[1]) \div 16) + 1) * 16
      [] OTHER -> -1

-----------------------------------------------------------------------------
(* smart constructors: the algebraic laws live here *)
RECURSIVE FlatParts(_)
FlatParts(xs) ==
    IF xs = <<>> THEN <<>>
    ELSE LET h == Head(xs)
             r == FlatParts(Tail(xs))
         IN IF h.op = "cat" THEN h.a \o r
            ELSE IF h.op = "lit" /\ Len(h.n) = 0 THEN r
            ELSE <<h>> \o r
Cat(xs) == LET p == FlatParts(xs)
           IN IF Len(p) = 0 THEN Empty ELSE IF Len(p) = 1 THEN p[1] ELSE T("cat", p, <<>>, "")

\* x[off .. off+len): a run of whole parts of a concatenation, a piece of a literal, or stuck
Slice(x, off, len) ==
    IF off = 0 /\ TLen(x) = len THEN x
    ELSE IF len = 0 THEN Empty
    ELSE IF x.op = "lit" /\ off + len <= Len(x.n) THEN Lit(SubSeq(x.n, off + 1, off + len))
    ELSE IF x.op = "cat"
    THEN LET ps == x.a
             Off[i \in 1..(Len(ps) + 1)] ==
                 IF i = 1 THEN 0
                 ELSE IF Off[i - 1] < 0 \/ TLen(ps[i - 1]) < 0 THEN -1 ELSE Off[i - 1] + TLen(ps[i - 1])
             I == {i \in 1..Len(ps) : Off[i] = off}
             J == {j \in 1..Len(ps) : Off[j + 1] = off + len}
             \* inside one literal part
             K == {k \in 1..Len(ps) : /\ ps[k].op = "lit" /\ Off[k] >= 0 /\ Off[k] <= off
                                      /\ off + len <= Off[k] + Len(ps[k].n)}
         IN IF I # {} /\ J # {}
            THEN LET i == CHOOSE i \in I : \A i2 \in I : i <= i2
                     j == CHOOSE j \in J : \A j2 \in J : j <= j2
                 IN IF i <= j THEN Cat(SubSeq(ps, i, j)) ELSE T("slice", <<x>>, <<off, len>>, "")
            ELSE IF K # {}
            THEN LET k == CHOOSE k \in K : TRUE
                 IN Lit(SubSeq(ps[k].n, off - Off[k] + 1, off - Off[k] + len))
            ELSE T("slice", <<x>>, <<off, len>>, "")
    ELSE T("slice", <<x>>, <<off, len>>, "")
Take(x, len) == Slice(x, 0, len)

\* x[off ..]
Drop(x, off) ==
    IF off = 0 THEN x
    ELSE IF x.op = "cat" /\ TLen(x.a[1]) = off THEN Cat(Tail(x.a))
    ELSE IF TLen(x) >= off THEN Slice(x, off, TLen(x) - off)
    ELSE T("drop", <<x>>, <<off>>, "")

Md5(x)    == T("md5", <<x>>, <<>>, "")
Sha256(x) == T("sha256", <<x>>, <<>>, "")
Sha384(x) == T("sha384", <<x>>, <<>>, "")
Sha512(x) == T("sha512", <<x>>, <<>>, "")
LE(x, k)  == T("le", <<x>>, <<k>>, "")
Rep(x, k) == T("rep", <<x>>, <<k>>, "")
XorB(x, c) == IF c = 0 THEN x ELSE T("xorb", <<x>>, <<c>>, "")

\* RC4 is an involution for a fixed key
Rc4(k, x) == IF x.op = "rc4" /\ x.a[1] = k THEN x.a[2] ELSE T("rc4", <<k, x>>, <<>>, "")
\* AES chaining modes without padding: decryption inverts encryption under the same key (and IV)
CbcEnc(k, iv, x) == IF x.op = "cbcdec" /\ x.a[1] = k /\ x.a[2] = iv THEN x.a[3] ELSE T("cbcenc", <<k, iv, x>>, <<>>, "")
CbcDec(k, iv, x) == IF x.op = "cbcenc" /\ x.a[1] = k /\ x.a[2] = iv THEN x.a[3] ELSE T("cbcdec", <<k, iv, x>>, <<>>, "")
EcbEnc(k, x) == IF x.op = "ecbdec" /\ x.a[1] = k THEN x.a[2] ELSE T("ecbenc", <<k, x>>, <<>>, "")
EcbDec(k, x) == IF x.op = "ecbenc" /\ x.a[1] = k THEN x.a[2] ELSE T("ecbdec", <<k, x>>, <<>>, "")
Pkcs5(x)   == T("pkcs5", <<x>>, <<>>, "")
Unpkcs5(x) == IF x.op = "pkcs5" THEN x.a[1] ELSE T("unpkcs5", <<x>>, <<>>, "")

Eq(a, b)  == T("eq", <<a, b>>, <<>>, "")
All(bs)   == T("all", bs, <<>>, "")
Bind(name, t) == T("bind", <<t>>, <<>>, name)
Binds(bs)     == T("binds", bs, <<>>, "")
DoWhile(init, step, cond, result, len) == T("dowhile", <<Binds(init), Binds(step), cond, result>>, <<len>>, "")

\* truth of a comparison term on the symbolic algebra (model checking)
RECURSIVE SymTrue(_)
SymTrue(b) == IF b.op = "eq" THEN b.a[1] = b.a[2]
              ELSE IF b.op = "all" THEN \A i \in 1..Len(b.a) : SymTrue(b.a[i])
              ELSE FALSE

-----------------------------------------------------------------------------
(* password preparation, Algorithm 2 step (a) and Algorithm 2.A steps (a)-(b).                      *)
(* The conversion of the typed text to bytes (PDFDocEncoding for R <= 4, SASLprep + UTF-8 for R >= 5) *)
(* is done before the term language; the terms start from the prepared byte string.                  *)

(* Algorithm 2 (a), first half, revisions 2-4: "the password string is generated ... by first converting the      *)
(* string to PDFDocEncoding".  The bytes are a function of the TEXT alone - in particular not of whatever other    *)
(* one-byte encoding the process converted text to before.  Characters on which the predefined encodings of        *)
(* ISO 32000-1 Annex D.2 differ (code, -1 = the encoding does not have the character):                             *)
OneByteEncodings == {"PDFDoc", "WinAnsi", "MacRoman", "Standard"}
PwChars == {"a", "euro", "bullet", "dagger", "eacute", "udieresis"}
CharCode(e, ch) ==
    LET four(pdf, win, mac, std) == CASE e = "PDFDoc" -> pdf [] e = "WinAnsi" -> win [] e = "MacRoman" -> mac [] OTHER -> std
    IN CASE ch = "a"         -> 97
         [] ch = "euro"      -> four(160, 128, 219, -1)
         [] ch = "bullet"    -> four(128, 149, 165, 183)
         [] ch = "dagger"    -> four(129, 134, 160, 178)
         [] ch = "eacute"    -> four(233, 233, 142, -1)
         [] ch = "udieresis" -> four(252, 252, 159, -1)
\* the codes of a text in an encoding (what is not in the encoding produces no byte)
EncodeText(e, txt) ==
    LET F[i \in 0..Len(txt)] == IF i = 0 THEN <<>>
                                ELSE IF CharCode(e, txt[i]) < 0 THEN F[i - 1] ELSE Append(F[i - 1], CharCode(e, txt[i]))
    IN F[Len(txt)]
CodeSegId(cs) == LET F[i \in 1..Len(cs)] == IF i = 1 THEN "c" \o ToString(cs[1]) ELSE F[i - 1] \o "_" \o ToString(cs[i])
                 IN F[Len(cs)]
\* the prepared password (a symbolic byte string: one segment named after its codes)
PrepText(e, txt) == LET cs == EncodeText(e, txt) IN IF Len(cs) = 0 THEN Pw(<<>>) ELSE Pw(<<Seg(CodeSegId(cs), Len(cs))>>)
PrepR234(txt) == PrepText("PDFDoc", txt)
\* the text has a character whose code in encoding e is not its PDFDocEncoding code
TableSensitive(e, txt) == \E i \in 1..Len(txt) : CharCode(e, txt[i]) # CharCode("PDFDoc", txt[i])

\* "Pad or truncate the password string to exactly 32 bytes": first 32 bytes of  password || padding string
Pad32(x) ==
    IF x.op = "pw"
    THEN IF Len(x.a) = 0 THEN Lit(PadBytes)
         ELSE IF x.a[1].n[1] >= 32 THEN x.a[1]
         ELSE Cat(<<x.a[1], Lit(SubSeq(PadBytes, 1, 32 - x.a[1].n[1]))>>)
    ELSE IF TLen(x) = 32 THEN x
    ELSE Slice(Cat(<<x, Lit(PadBytes)>>), 0, 32)

\* "Truncate the UTF-8 representation to 127 bytes if it is longer than 127 bytes"
AtMost127(x) ==
    IF x.op = "pw" THEN Pw(SubSeq(x.a, 1, Min(Len(x.a), 2)))
    ELSE T("atmost", <<x>>, <<127>>, "")

\* the password equivalence the algorithms induce
Canon(R, pw) == IF R <= 4 THEN Pad32(pw) ELSE AtMost127(pw)

-----------------------------------------------------------------------------
(* revisions 2-4 *)

\* n = number of bytes of the file encryption key: always 5 for revision 2, Length / 8 otherwise
KeyBytes(R, bits) == IF R = 2 THEN 5 ELSE bits \div 8

\* "Do the following 50 times: take the output from the previous MD5 hash and pass the first k bytes .. into a new MD5 hash"
Md5x50(x, k) ==
    DoWhile(<<Bind("h", x)>>,
            <<Bind("h", Md5(Slice(Var("h", 16), 0, k)))>>,
            T("geq", <<Round, IntC(50)>>, <<>>, ""),
            Var("h", 16), 16)

\* Algorithm 2 (a)-(i): file encryption key from a (user) password
FileKeyR234(R, bits, meta, pw, O, P, id0) ==
    LET n == KeyBytes(R, bits)
        h == Md5(Cat(<<Pad32(pw), O, LE(P, 4), id0>>                             \* (a)-(e)
                     \o (IF R >= 4 /\ ~meta THEN <<Lit(FF4)>> ELSE <<>>)))        \* (f)
    IN Slice(IF R >= 3 THEN Md5x50(h, n) ELSE h, 0, n)                            \* (h), (i)

\* Algorithm 3 (a)-(d): RC4 key from the owner password ("if there is no owner password, use the user password")
OwnerKeyR234(R, bits, opw) ==
    LET h == Md5(Pad32(opw))
    IN Slice(IF R >= 3 THEN Md5x50(h, 16) ELSE h, 0, KeyBytes(R, bits))

\* RC4 with the key, then (R >= 3) 19 more passes with key XOR 1 .. key XOR 19     (Algorithm 3 (f)-(g), 5 (d)-(e))
Rc4Up(R, key, x) ==
    LET F[i \in 0..19] == IF i = 0 THEN Rc4(key, x) ELSE Rc4(XorB(key, i), F[i - 1])
    IN IF R >= 3 THEN F[19] ELSE F[0]

\* Algorithm 7 (b): 20 passes with key XOR 19 .. key XOR 0 (order = "reverse"; "forward" is the mutant 0..19)
Rc4Down(R, key, y, order) ==
    LET c(k) == IF order = "reverse" THEN 20 - k ELSE k - 1
        G[k \in 0..20] == IF k = 0 THEN y ELSE Rc4(XorB(key, c(k)), G[k - 1])
    IN IF R >= 3 THEN G[20] ELSE Rc4(key, y)

\* Algorithm 3 (e)-(h)
OValueR234(R, okey, upw) == Rc4Up(R, okey, Pad32(upw))

\* Algorithm 4 / Algorithm 5 without its last step (the part Algorithm 6 compares)
UCoreR234(R, fk, id0) ==
    IF R = 2 THEN Rc4(fk, Lit(PadBytes))
    ELSE Rc4Up(R, fk, Md5(Cat(<<Lit(PadBytes), id0>>)))
\* Algorithm 5 (f): "append 16 bytes of arbitrary padding"
UValueR234(R, fk, id0, arb) == IF R = 2 THEN UCoreR234(R, fk, id0) ELSE Cat(<<UCoreR234(R, fk, id0), arb>>)
UCmpLen(R) == IF R = 2 THEN 32 ELSE 16

\* Algorithm 6: the supplied password is the user password
AuthUserKeyed(R, fk, id0, U) == Eq(UCoreR234(R, fk, id0), Slice(U, 0, UCmpLen(R)))
AuthUserR234(R, bits, meta, pw, O, U, P, id0) ==
    AuthUserKeyed(R, FileKeyR234(R, bits, meta, pw, O, P, id0), id0, U)

\* Algorithm 7 (a)-(b): what purports to be the user password
RecoverUserR234(R, bits, pw, O, order) == Rc4Down(R, OwnerKeyR234(R, bits, pw), O, order)

\* Algorithm 1: key for one string / stream of object (num, gen)
ObjKeyLen(n) == Min(n + 5, 16)
ObjKey(fk, n, num, gen, m) ==
    IF m = "AESV3" THEN fk                                                        \* Algorithm 1.A
    ELSE Slice(Md5(Cat(<<fk, LE(num, 3), LE(gen, 2)>> \o (IF m = "AESV2" THEN <<Lit(SaltBytes)>> ELSE <<>>))),
               0, ObjKeyLen(n))

\* ciphertext layout: IV || AES-CBC(PKCS#5(pt))   |   RC4(pt)   |   pt (Identity)
IsAes(m) == m \in {"AESV2", "AESV3"}
Ct(m, key, iv, pt) == IF IsAes(m) THEN Cat(<<iv, CbcEnc(key, iv, Pkcs5(pt))>>)
                      ELSE IF m = "V2" THEN Rc4(key, pt) ELSE pt
Pt(m, key, ct) == IF IsAes(m) THEN Unpkcs5(CbcDec(key, Slice(ct, 0, 16), Drop(ct, 16)))
                  ELSE IF m = "V2" THEN Rc4(key, ct) ELSE ct

-----------------------------------------------------------------------------
(* revisions 5 and 6 *)

\* Algorithm 2.B; revision 5 (Adobe extension level 3) is the plain SHA-256 of the input
Hash2B(R, pw, salt, u) ==
    LET k0 == Sha256(Cat(<<pw, salt, u>>))
        K  == Var("K", -1)
        E  == Var("E", -1)
    IN IF R = 5 THEN k0
       ELSE DoWhile(
              <<Bind("K", k0)>>,
              <<Bind("K1", Rep(Cat(<<pw, K, u>>), 64)),                                   \* (a)
                Bind("E", T("cbcenc", <<Slice(K, 0, 16), Slice(K, 16, 16), Var("K1", -1)>>, <<>>, "")),  \* (b)
                Bind("K", T("sel", <<T("mod3", <<Slice(E, 0, 16)>>, <<>>, ""),            \* (c), (d)
                                     Sha256(E), Sha384(E), Sha512(E)>>, <<>>, ""))>>,
              \* (e)-(f): at least 64 rounds, then until last byte of E <= (round number) - 32
              T("and", <<T("geq", <<Round, IntC(64)>>, <<>>, ""),
                         T("leq", <<T("lastbyte", <<E>>, <<>>, ""), T("sub", <<Round, IntC(32)>>, <<>>, "")>>, <<>>, "")>>,
                <<>>, ""),
              Slice(K, 0, 32), 32)

\* Algorithm 8
UValueR56(R, upw, vsalt, ksalt) == Cat(<<Hash2B(R, AtMost127(upw), vsalt, Empty), vsalt, ksalt>>)
UEValue(R, upw, ksalt, fek)     == CbcEnc(Hash2B(R, AtMost127(upw), ksalt, Empty), Zero16, fek)
\* Algorithm 9 (the 48-byte U string is part of the hash input)
OValueR56(R, opw, vsalt, ksalt, U) == Cat(<<Hash2B(R, AtMost127(opw), vsalt, U), vsalt, ksalt>>)
OEValue(R, opw, ksalt, U, fek)     == CbcEnc(Hash2B(R, AtMost127(opw), ksalt, U), Zero16, fek)
\* Algorithm 10
PermsPlain(P, meta, rnd) == Cat(<<LE(P, 4), Lit(FF4), Lit(<<IF meta THEN ByteT ELSE ByteF>>), Lit(AdbBytes), rnd>>)
PermsValue(fek, P, meta, rnd) == EcbEnc(fek, PermsPlain(P, meta, rnd))

\* Algorithm 11 / 12; withU = FALSE is the mutant that forgets the U string in Algorithm 12
AuthUserR56(R, pw, U)         == Eq(Hash2B(R, AtMost127(pw), Slice(U, 32, 8), Empty), Slice(U, 0, 32))
AuthOwnerR56(R, pw, O, U, withU) ==
    Eq(Hash2B(R, AtMost127(pw), Slice(O, 32, 8), IF withU THEN U ELSE Empty), Slice(O, 0, 32))
\* Algorithm 2.A (d), (e)
FileKeyFromUE(R, pw, U, UE)    == CbcDec(Hash2B(R, AtMost127(pw), Slice(U, 40, 8), Empty), Zero16, UE)
FileKeyFromOE(R, pw, O, U, OE) == CbcDec(Hash2B(R, AtMost127(pw), Slice(O, 40, 8), U), Zero16, OE)
\* Algorithm 2.A (f) / Algorithm 13
PermsDecrypted(fk, Perms) == EcbDec(fk, Perms)
PermsValid(fk, Perms, P, meta) ==
    LET d == PermsDecrypted(fk, Perms)
    IN All(<<Eq(Slice(d, 9, 3), Lit(AdbBytes)), Eq(Slice(d, 0, 4), LE(P, 4)),
             Eq(Slice(d, 8, 1), Lit(<<IF meta THEN ByteT ELSE ByteF>>))>>)

-----------------------------------------------------------------------------
(* which strings and streams are encrypted (ISO 32000-1 7.6.1, ISO 32000-2 7.6.2): everything except the strings  *)
(* of the Encrypt dictionary, the trailer ID, cross-reference streams, the document metadata stream when             *)
(* EncryptMetadata is false, and the Contents string of a signature dictionary (the signature value is computed      *)
(* over the file as written and stored as it is).  Strings inside a stream's dictionary are strings.  From V 4 on a   *)
(* stream whose Filter names Crypt uses the crypt filter its decode parameters name instead of StmF - Identity        *)
(* when there are no parameters (no DecodeParms, a null entry, no Name): "stream.cryptid" is not encrypted; below     *)
(* V 4 there are no crypt filters and it is a stream like any other.                                                 *)
ItemKinds == {"str.dict", "str.nested", "str.top", "str.streamdict", "stream", "stream.meta",
              "stream.xref", "str.encdict", "str.id", "str.sigcontents", "stream.cryptid"}
IsStringKind(k) == k \in {"str.dict", "str.nested", "str.top", "str.streamdict", "str.encdict", "str.id", "str.sigcontents"}
IsoSubject(k, meta) ==
    CASE k \in {"stream.xref", "str.encdict", "str.id", "str.sigcontents"} -> FALSE
      [] k = "stream.meta" -> meta
      [] OTHER -> TRUE
\* ... for a configuration c
Subject(c, k) == IF k = "stream.cryptid" THEN c.V < 4 ELSE IsoSubject(k, c.meta)

-----------------------------------------------------------------------------
(* configurations of the standard security handler *)
\* [R, V, bits, meta, stmf, strf]; stmf/strf = the method of the crypt filter StmF / StrF name: "V2" (RC4), "AESV2",
\* "AESV3", or "Identity" (the standard crypt filter that passes data through; also the default of StmF / StrF)
ValidCfg(c) ==
    CASE c.R = 2 -> c.V = 1 /\ c.bits = 40 /\ c.meta /\ c.stmf = "V2" /\ c.strf = "V2"
      [] c.R = 3 -> c.V = 2 /\ c.bits \in {40 + 8 * i : i \in 0..11} /\ c.meta /\ c.stmf = "V2" /\ c.strf = "V2"
      [] c.R = 4 -> c.V = 4 /\ c.bits = 128 /\ c.stmf \in {"V2", "AESV2", "Identity"} /\ c.strf \in {"V2", "AESV2", "Identity"}
      [] c.R \in {5, 6} -> c.V = 5 /\ c.bits = 256 /\ c.stmf \in {"AESV3", "Identity"} /\ c.strf \in {"AESV3", "Identity"}
      [] OTHER -> FALSE
(* The Length entry of the encryption dictionary (Table 20): "only if V is 2 or 3", a multiple of 8 in 40..128,  *)
(* default 40.  For the other values of V the key length is fixed by V (1: 40 bits, 4: 128 bits, 5: 256 bits) and  *)
(* the entry does not apply: a reader ignores it, and writers do emit it with the length V implies (/Length 128     *)
(* with V 4, /Length 256 with V 5 are what Acrobat and qpdf write).  -1 stands for "no Length entry".              *)
LegalLengths(c) ==
    CASE c.V = 1 -> {-1, 40}
      [] c.V = 2 -> {c.bits} \cup (IF c.bits = 40 THEN {-1} ELSE {})
      [] c.V = 4 -> {-1, 128}
      [] OTHER  -> {-1, 256}
\* the key length in bits a reader derives from V and the Length entry
ReaderBits(V, len) ==
    CASE V = 1 -> 40
      [] V = 2 -> IF len = -1 THEN 40 ELSE len
      [] V = 4 -> 128
      [] OTHER -> 256
\* the form most writers use / the standard's own (the reference form a failing variant is compared with)
CanonLength(c) == CASE c.V = 1 -> -1 [] c.V = 2 -> c.bits [] c.V = 4 -> 128 [] OTHER -> -1
\* input class of a document whose Length entry has another legal form
LenClass(c, len) == IF len = CanonLength(c) THEN "none"
                    ELSE "V" \o ToString(c.V) \o "." \o (IF len = -1 THEN "absent" ELSE ToString(len))

MethodOf(c, kind) == IF IsStringKind(kind) THEN c.strf ELSE c.stmf

(* Other legal FORMS of the same encryption dictionary (one deviation from the canonical form at a time):            *)
(*   "em.false"     V < 4 with /EncryptMetadata false - the entry is "meaningful only when the value of V is 4 or 5"  *)
(*   "enc.direct"   the trailer's Encrypt entry is the dictionary itself, not a reference to it                      *)
(*   "stmf.absent" / "strf.absent"   V >= 4, the filter is Identity by default ("Default value: Identity")           *)
(* Entries = the entries in question as written; IsoView = what a reader following the standard takes from them.      *)
Forms(c) == {"canon", "enc.direct"} \cup (IF c.V < 4 THEN {"em.false"} ELSE {})
            \cup (IF c.V >= 4 /\ c.stmf = "Identity" THEN {"stmf.absent"} ELSE {})
            \cup (IF c.V >= 4 /\ c.strf = "Identity" THEN {"strf.absent"} ELSE {})
Entries(c, f) ==
    [enc  |-> IF f = "enc.direct" THEN "direct" ELSE "indirect",
     em   |-> IF f = "em.false" THEN "false" ELSE IF c.V < 4 THEN "absent" ELSE IF c.meta THEN "true" ELSE "false",
     stmf |-> IF c.V < 4 \/ f = "stmf.absent" THEN "absent" ELSE c.stmf,
     strf |-> IF c.V < 4 \/ f = "strf.absent" THEN "absent" ELSE c.strf]
IsoView(V, e) ==
    [seen |-> TRUE,
     meta |-> IF V < 4 THEN TRUE ELSE e.em # "false",
     stmf |-> IF V < 4 THEN "V2" ELSE IF e.stmf = "absent" THEN "Identity" ELSE e.stmf,
     strf |-> IF V < 4 THEN "V2" ELSE IF e.strf = "absent" THEN "Identity" ELSE e.strf]
FormClass(c, f) == IF f = "canon" THEN "none" ELSE "V" \o ToString(c.V) \o "." \o f
\* optional content of a document (at most one per generated document): a signature dictionary; streams with a
\* Crypt filter without parameters
Features == {"none", "sig", "crypt"}

\* P as a signed 32-bit integer: all bits 1 except bits 1-2 (reserved 0) and the permission bits switched off
\* (bit positions counted from 1 as in Table 22; off \subseteq {3,4,5,6,9,10,11,12})
Pow2(k) == LET F[i \in 0..k] == IF i = 0 THEN 1 ELSE 2 * F[i - 1] IN F[k]
RECURSIVE SumPow(_)
SumPow(S) == IF S = {} THEN 0 ELSE LET b == CHOOSE b \in S : TRUE IN Pow2(b - 1) + SumPow(S \ {b})
PValue(off) == -1 - 3 - SumPow(off)

=============================================================================
