SPECIFICATION Spec
CONSTANTS
  NP = 2
  MaxNums = 2
  Dev <- CarryDev
  Emit = FALSE
INVARIANTS FunctionForm C CarryExplained
CHECK_DEADLOCK FALSE
