SPECIFICATION Spec
CONSTANTS
  NP = 2
  MaxNums = 3
  Dev <- CarryDev
  Emit = FALSE
INVARIANTS FunctionForm C CarryExplained
CHECK_DEADLOCK FALSE
