--------------------------- MODULE Trace_Editing ---------------------------
(* impl -> spec: validates recorded programs of editing calls run against lopdf (c11 record, and  *)
(* c11 replay of the behaviours TLC generated).  One record per event:                             *)
(*   [ev |-> "Start", objects, trailer, max_id, bms, pages, pc, po, er, content]   a new program:  *)
(*        the full projected document, lopdf's page_iter() / get_page_content() per page, the       *)
(*        driver's own reading of the resources in effect, and the content the generator declared   *)
(*   [ev |-> "Call", c, res, set, del, trailer, max_id, bms, pages, pc, po, xn, er]  one public call *)
(*        arguments, result and the projected state after it (objects as a delta: set / del)        *)
(*   [ev |-> "Panic", c, msg]                                                  the call panicked    *)
(* The trace spec carries the document and the ghost state, binds each Call to its action (the     *)
(* call record c is exactly the argument of EditingSys!Step), lets the declarative layer           *)
(* (Editing!Judge) check the effect and every invariant on the LOGGED post-state, prints a          *)
(* clause-named verdict and re-synchronises to the logged state, so the rest of the program is      *)
(* still checked.  The impl-shaped layer only reports drift.                                        *)
(*   v = "ok" | "ok-drift" (tags = what drifted) | "ok-outside-domain" (the call's precondition     *)
(*       does not hold, e.g. the document was left unsound by a step already reported)              *)
(*     | "violation" (tags = the violated clauses) | "panic" | "spec-inconsistent" (the spec's      *)
(*       reading of the logged objects disagrees with the driver's independent reading: tool error) *)
EXTENDS Editing, Json, IOUtils

\* TLC orders record fields by the order in which their names are first met while parsing, starting with this
\* (root) module.  Editing compares objects of different kinds ([k, v], [k, n], [k, d, c, z], ...): the kind field
\* k must be compared before the payload fields, so that values of different kinds never compare payloads of
\* different types (which TLC refuses to evaluate).  Keep this first mention of the object fields here.
KindFirst_Trace_Editing(o) == <<o.k, o.n, o.v, o.d, o.c, o.z>>

Recs == ndJsonDeserialize(IOEnv.TRACE)

VARIABLES l, doc, aux, gh, live

tvars == <<l, doc, aux, gh, live>>

PairsToFn(s) == [id \in {s[i][1] : i \in DOMAIN s} |-> s[CHOOSE i \in DOMAIN s : s[i][1] = id][2]]

Blank == [objs |-> <<>>, trailer |-> <<>>, max_id |-> 0, bms |-> <<>>]

DocOfStart(r) == [objs |-> PairsToFn(r.objects), trailer |-> r.trailer, max_id |-> r.max_id, bms |-> r.bms]

DocAfter(pre, r) ==
    LET upd == PairsToFn(r.set)
        ids == (DOMAIN pre.objs \cup DOMAIN upd) \ RangeOf(r.del)
    IN [objs |-> [id \in ids |-> IF id \in DOMAIN upd THEN upd[id] ELSE pre.objs[id]],
        trailer |-> r.trailer, max_id |-> r.max_id, bms |-> r.bms]

\* the driver's observations through lopdf's own queries and its independent reading of the objects
Observed(r, d, B) ==
    LET pc == PairsToFn(r.pc)
        er == PairsToFn(r.er)
    IN (IF r.pages # B.pp THEN {"pages.query"} ELSE {})                  \* page_iter() = the page sequence
       \cup (IF \E p \in RangeOf(B.pp) : p \notin DOMAIN pc \/ pc[p] # B.content[p] THEN {"content.query"} ELSE {})
Inconsistent(r, d, B) ==
    LET er == PairsToFn(r.er) IN
    \E p \in RangeOf(B.pp) : p \notin DOMAIN er \/ RangeOf(er[p]) # ResNames(d.objs, p)

\* what the driver saw of the post-state through lopdf's decoder: every page's operation sequence
\* (Content::decode of get_page_content, one token per operation; Editing!Undec if it does not decode)
\* and the name under which an insert_* call registered its new object (as key text and as bytes)
Seen(r) == [ops |-> PairsToFn(r.po), xn |-> r.xn]

\* the impl-shaped layer predicts the document up to the encoding flag of streams (whether flate pays
\* off depends on the bytes)
SameDoc(a, b) ==
    /\ DOMAIN a.objs = DOMAIN b.objs /\ a.trailer = b.trailer /\ a.max_id = b.max_id /\ a.bms = b.bms
    /\ \A id \in DOMAIN a.objs :
          LET x == a.objs[id] y == b.objs[id] IN
          IF x.k = "stream" /\ y.k = "stream" THEN x.d = y.d /\ x.c = y.c ELSE x = y

Say(i, v, tags) == PrintT(<<"VERDICT", ToJson([i |-> i, v |-> v, tags |-> tags])>>)

Summary(tags) == IF Violations(tags) # {} THEN "violation" ELSE IF tags # {} THEN "ok-drift" ELSE "ok"

Init == l = 1 /\ doc = Blank /\ aux = Aux(Blank) /\ gh = GhostOf(Aux(Blank), <<>>) /\ live = FALSE

Start ==
    /\ l <= Len(Recs) /\ Recs[l].ev = "Start"
    /\ LET r == Recs[l]
           d == DocOfStart(r)
           B == Aux(d)
           decl == PairsToFn(r.content)
           tags == JudgeState(d, B, decl) \cup Observed(r, d, B) \cup (IF B.sound THEN {} ELSE {"start.unsound"})
       IN /\ IF Inconsistent(r, d, B) THEN Say(l, "spec-inconsistent", {"er"}) ELSE Say(l, Summary(tags), tags)
          /\ doc' = d /\ aux' = B /\ gh' = [issued |-> {}, content |-> B.content, ops |-> PairsToFn(r.po)]
    /\ live' = TRUE /\ l' = l + 1

CallEv ==
    /\ l <= Len(Recs) /\ Recs[l].ev = "Call"
    /\ LET r == Recs[l]
           c == r.c
           post == DocAfter(doc, r)
           B == Aux(post)
       IN /\ IF ~live THEN Say(l, "ok-outside-domain", {"after-panic"})
             ELSE IF ~Pre(doc, aux, gh, c) THEN Say(l, "ok-outside-domain", {})
             ELSE IF Inconsistent(r, post, B) THEN Say(l, "spec-inconsistent", {"er"})
             ELSE LET j == Judge(doc, aux, gh, c, r.res, post, B, Seen(r))
                      m == Impl(doc, c, DevAsIs, gh.ops)
                      \* (no prediction where the decoder read only part of the page's bytes)
                      blind == IsInsert(c) /\ c.id \in DOMAIN gh.ops /\ gh.ops[c.id] = Partial
                      drift == IF blind \/ (SameDoc(m.doc, post) /\ m.res = r.res) THEN {} ELSE {"drift.model"}
                      tags == j.tags \cup Observed(r, post, B) \cup drift
                  IN Say(l, Summary(tags), tags)
          /\ doc' = post /\ aux' = B
          /\ gh' = LET iss == CASE c.op = "NewObjectId" -> gh.issued \cup {r.res.id}
                               [] c.op = "Replace" -> gh.issued \ {c.id}
                               [] c.op \in Rekeying -> {}
                               [] OTHER -> gh.issued
                   IN [issued |-> iss, content |-> B.content, ops |-> PairsToFn(r.po)]
    /\ l' = l + 1 /\ UNCHANGED live

PanicEv ==
    /\ l <= Len(Recs) /\ Recs[l].ev = "Panic"
    /\ Say(l, "panic", {"panic." \o Recs[l].c.op})
    /\ live' = FALSE /\ l' = l + 1 /\ UNCHANGED <<doc, aux, gh>>

Next == Start \/ CallEv \/ PanicEv
Spec == Init /\ [][Next]_tvars
Consumed == TLCGet("stats").diameter = Len(Recs) + 1
=============================================================================
