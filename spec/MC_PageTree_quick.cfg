SPECIFICATION Spec
CONSTANTS
  N = 3
  MaxKids = 2
  DepthLimit = 2
  Emit = TRUE
  RootTypes = {"Pages", "Other", "NonDict"}
INVARIANTS Refines Terminates FunctionForm EmitInv
CHECK_DEADLOCK FALSE
