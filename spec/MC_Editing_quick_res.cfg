SPECIFICATION Spec
CONSTANTS
  Devs <- DevBoth
  Ops <- OpsRes
  ByteStrings <- BytesQuick
  NumSeqs <- NumsQuick
  NewObjs <- MCNewObjs
  InheritBound <- MCInheritBound
  MaxDepth = 3
  Starts <- StartsRes
  Allowed = {"resources.shadow.incremental"}
  Emit = TRUE
  EmitMod = 100
  EmitModV = 20
VIEW View
INVARIANTS Refines StartOk EmitViolations
CHECK_DEADLOCK FALSE
