SPECIFICATION Spec
CONSTANTS
  DerefLimit = 128
  Dev_NextCycle = TRUE
  Dev_FirstCycle = TRUE
  Dev_KidsCycle = TRUE
  Dev_DestIndex = TRUE
  Dev_NdUnwrapD = TRUE
  Dev_NdKeyStr = TRUE
  Dev_NdValIndex = TRUE
  Dev_CsIndex = TRUE
  Dev_SizeHint = TRUE
POSTCONDITION Consumed
CHECK_DEADLOCK FALSE
