SPECIFICATION Spec
CONSTANTS
  DerefLimit = 128
  Dev_NextCycle = FALSE
  Dev_FirstCycle = FALSE
  Dev_KidsCycle = FALSE
  Dev_DestIndex = FALSE
  Dev_NdUnwrapD = FALSE
  Dev_NdKeyStr = FALSE
  Dev_NdValIndex = FALSE
  Dev_CsIndex = FALSE
  Dev_SizeHint = FALSE
  Dev_RsrcRecursion = FALSE
  Dev_FirstDepth = FALSE
  Dev_KidsDepth = FALSE
  FirstWalkIterative = TRUE
  StackFrames = 1000
  StackFramesMax = 65536
  OutlineDepthLimit = 256
  NameTreeDepthLimit = 256
POSTCONDITION Consumed
CHECK_DEADLOCK FALSE
