--------------------------- MODULE MC_CodecsExt ---------------------------
(* The reference decoders of CodecsExt invert its encoders: exhaustive over short byte strings of a small alphabet. *)
EXTENDS CodecsExt, TLC, FiniteSets

CONSTANTS Alphabet, MaxLen

VARIABLES data, pc
Data == UNION {[1..n -> Alphabet] : n \in 0..MaxLen}

Init == data \in Data /\ pc = "go"
Next == pc = "go" /\ pc' = "done" /\ UNCHANGED data
Spec == Init /\ [][Next]_<<data, pc>>

HexStyles == {"upper", "lower", "ws", "odd", "noeod"}
HexInv == \A st \in HexStyles : LET r == AHxDecode(AHxEncode(data, st)) IN r.ok /\ r.data = data
RLInv == \A seg \in {1, 2, 3, 128}, eod \in BOOLEAN : LET r == RLDecode(RLEncode(data, seg, eod)) IN r.ok /\ r.data = data
TiffInv == \A colors \in {1, 2}, rowlen \in {1, 2, 3, 4} :
              (rowlen % colors = 0) => LET r == TiffDecode(TiffEncode(data, colors, rowlen), colors, rowlen) IN r.ok /\ r.data = data
\* every component width; also against the 8-bit pair above
TiffBInv == \A colors \in {1, 2, 3}, bpc \in {1, 2, 4, 8, 16}, columns \in {1, 2, 3} :
                LET e == TiffEncodeB(data, colors, bpc, columns) r == TiffDecodeB(e, colors, bpc, columns)
                IN r.ok /\ r.data = data /\ Len(e) = Len(data)
                   /\ (bpc = 8 => e = TiffEncode(data, colors, colors * columns))
\* witnesses: the encoders really use both forms
RunUsed == ~(\E seg \in {2, 3} : \E i \in 1..Len(RLEncode(data, seg, TRUE)) : RLEncode(data, seg, TRUE)[i] > 128)
=============================================================================
