SPECIFICATION Spec
CONSTANTS
  Devs <- DevBoth
  Ops <- OpsContent
  ByteStrings <- BytesQuick
  NumSeqs <- NumsQuick
  NewObjs <- MCNewObjs
  InheritBound <- MCInheritBound
  MaxDepth = 4
  Starts <- StartsContent2
  Allowed = {"resources.shadow.incremental"}
  Emit = TRUE
  EmitMod = 2000
  EmitModV = 200
VIEW View
INVARIANTS Refines StartOk EmitViolations
CHECK_DEADLOCK FALSE
