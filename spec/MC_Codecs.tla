----------------------------- MODULE MC_Codecs -----------------------------
(* Exhaustive check of Codecs within small bounds, and generator of replay cases for lopdf.    *)
(* Every state after the initial one is one *case*: an input, the reference encoder's free     *)
(* choices, and the encoded bytes.  Invariants: decoder(encoder(x)) = x for every codec and     *)
(* every chain (declarative layer); the impl-shaped decoder with all deviation switches off     *)
(* agrees with it; with the switches DevAvg/DevArr/DevNul as the cfg sets them ("as the code    *)
(* is": all FALSE since the fix: commits for png.avg, decodeparms.array, a85.nul) every          *)
(* disagreement falls in a listed class.  With Emit = TRUE each case is printed as one JSON line: *)
(*   chain case: [k, fam, plain, enc, chain (stages with effective params), form, impl, cls]    *)
(*   row case  : [k, ft, bpp, prev, cur, want, impl, avgdev]                                    *)
(* cls / implAvg / avgdev describe the *repaired* deviations; the check script uses them only   *)
(* to name the signature of a regression (a case that fails exactly as the old defect did).     *)
EXTENDS Codecs, Json

CONSTANTS
    AlphA, MaxLenA,      \* ASCII85: all byte strings over AlphA up to MaxLenA
    AlphZ, MaxLenZ,      \* stored zlib: all strings over AlphZ up to MaxLenZ, every block size in BlockSizes
    BlockSizes,
    AlphH, MaxLenH,      \* ASCIIHex: all strings over AlphH up to MaxLenH, five spellings
    AlphL, MaxLenL,      \* LZW: all strings over AlphL up to MaxLenL, EarlyChange 0|1, with/without extra clear codes
    NLong,               \* number of long LZW patterns (cross the 9->10.. bit boundaries)
    MaxCols, ColorSet, MaxRows, NData,   \* PNG: Columns 1..MaxCols x Colors x BPC {8,16} x 5^rows filter types
    ByteCube,            \* PNG: all 2x2 frames over this alphabet (bpp 1), all 25 filter assignments ({} = off)
    Strat,               \* stratified coordinate values for the Paeth cube
    StratRow,            \* stratified values for the None/Sub/Up/Average single-row cases
    MaxChain,            \* chains of length 2..MaxChain over the six stage templates
    PaethPlanes,         \* the whole (above, upper-left) plane is tabulated for left in 0..PaethPlanes-1 (0 = off)
    Emit,
    DevInd,                  \* open finding indirect.*: entries written as references are treated as absent (TRUE = as the code is)
    DevEncAvg,               \* open finding png.encode-avg: encode_row(Avg) adds left + above in u8 (TRUE = the code as it is)
    RowAlph, RowAlph3,       \* encode_row o decode_row: all pairs of 2-byte rows over RowAlph, of 3-byte rows over RowAlph3
    DevEmpty,                \* finding filter.empty-array (repaired by a002bcd): /Filter [] decoded to nothing (TRUE = the code as it was)
    DevAvg, DevArr, DevNul   \* deviation switches of Codecs' impl-shaped layer: the code as it is (all FALSE = repaired)

VARIABLES pc, case
vars == <<pc, case>>

\* published vectors pin the transcription (checked by TLC before the search starts)
ASSUME Vectors ==
    /\ A85Encode(<<77, 97, 110, 32>>, TRUE) = <<57, 106, 113, 111, 94, 126, 62>>                \* "Man " -> 9jqo^~>
    /\ A85Encode(<<255, 255, 255, 255>>, TRUE) = <<115, 56, 87, 45, 33, 126, 62>>              \* s8W-!~>
    /\ A85Decode(<<122, 126, 62>>) = Good(<<0, 0, 0, 0>>)
    /\ ~A85Decode(<<117, 117, 117, 117, 117, 126, 62>>).ok                                      \* uuuuu > 2^32 - 1
    /\ Adler32(<<87, 105, 107, 105, 112, 101, 100, 105, 97>>) = <<17, 230, 3, 152>>              \* "Wikipedia" -> 11E60398
    /\ ZStored(<<>>, 1) = <<120, 1, 1, 0, 0, 255, 255, 0, 0, 0, 1>>
    /\ LzwEncode(<<45, 45, 45, 45, 45, 65, 45, 45, 45, 66>>, 1, 4094) = <<128, 11, 96, 80, 34, 12, 12, 133, 1>>  \* ISO 32000-1 7.4.4.2
    /\ LzwDecode(<<128, 11, 96, 80, 34, 12, 12, 133, 1>>, 1) = Good(<<45, 45, 45, 45, 45, 65, 45, 45, 45, 66>>)
    /\ PngDecodeRow(3, 1, <<10, 20>>, <<5, 7>>) = <<10, 22>>
    /\ PaethPredictor(0, 3, 1) = 3 /\ PaethPredictor(3, 0, 1) = 3 /\ PaethPredictor(10, 20, 30) = 10

SeqsUpTo(S, n) == UNION {[1..k -> S] : k \in 0..n}

Ch0 == [fts |-> <<>>, bs |-> 65535, useZ |-> TRUE, reset |-> 4094, style |-> "upper", seg |-> 128, eod |-> TRUE]
Parms(pred, colors, bpc, columns, early) ==
    [present |-> TRUE, pred |-> pred, colors |-> colors, bpc |-> bpc, columns |-> columns, early |-> early]

ChainCase(fam, plain, chain, chs, form) ==
    [k |-> "chain", fam |-> fam, plain |-> plain, chain |-> chain, form |-> form, ws |-> -1, ff |-> "std",
     fts |-> chs[1].fts, sfts |-> [i \in 1..Len(chs) |-> chs[i].fts], enc |-> Encode(plain, chain, chs)]

Init == pc = "pick" /\ case = [k |-> "none"]

-----------------------------------------------------------------------------
\* ASCII85: every input; `z` vs `!!!!!`
PickA85 ==
    /\ pc = "pick"
    /\ \E plain \in SeqsUpTo(AlphA, MaxLenA), z \in BOOLEAN :
          case' = ChainCase("a85", plain, <<Stage(A85, DefaultParms)>>, <<[Ch0 EXCEPT !.useZ = z]>>, "none")
    /\ pc' = "case"

\* ASCII85 with white-space: one white-space byte at every position before the EOD marker
\* (inside a group, between groups, before `~>`), and one case with a line feed after every byte
WsPlains == {<<>>, <<1>>, <<0, 0, 0, 0>>, <<77, 97, 110, 32, 105>>, <<255, 255, 255, 255, 0, 0, 0, 0, 9, 8>>}
PickA85Ws ==
    /\ pc = "pick"
    /\ \E plain \in WsPlains, w \in WhiteSpace :
          LET e == A85Encode(plain, TRUE) IN
          \E pos \in 0..(Len(e) - 1) :
             case' = [k |-> "chain", fam |-> "a85ws", plain |-> plain, chain |-> <<Stage(A85, DefaultParms)>>,
                      form |-> "none", ws |-> w, ff |-> "std", fts |-> <<>>, sfts |-> <<<<>>>>,
                      enc |-> IF pos = 0
                              THEN Concat([i \in 1..(Len(e) - 2) |-> <<e[i], w>>]) \o EOD85
                              ELSE InsertAt(e, pos, w)]
    /\ pc' = "case"

\* zlib stored blocks: every input, every block size
PickZ ==
    /\ pc = "pick"
    /\ \E plain \in SeqsUpTo(AlphZ, MaxLenZ), bs \in BlockSizes :
          case' = ChainCase("zstored", plain, <<Stage(Flate, DefaultParms)>>, <<[Ch0 EXCEPT !.bs = bs]>>, "none")
    /\ pc' = "case"

\* LZW: every input; EarlyChange 0|1; clear codes only at the start / every third table entry
LzwForms(early) == IF early = 0 THEN {"dict", "array"} ELSE {"none", "dict", "array"}
LzwStage(early, form) ==
    Stage(Lzw, IF form = "none" THEN DefaultParms ELSE Parms(1, 1, 8, 1, early))
PickLzw ==
    /\ pc = "pick"
    /\ \E plain \in SeqsUpTo(AlphL, MaxLenL), early \in {0, 1}, reset \in {4094, 261} :
          \E form \in LzwForms(early) :
             case' = ChainCase("lzw", plain, <<LzwStage(early, form)>>, <<[Ch0 EXCEPT !.reset = reset]>>, form)
    /\ pc' = "case"

\* long inputs from a small pattern grammar: enough codes to cross the 9->10 (k <= 3), 10->11 (k = 4),
\* 11->12 bit boundaries (k = 5) and to fill the table (k = 6)
LongPattern(k) ==
    CASE k = 1 -> [i \in 1..600 |-> (i * i + 7 * i) % 251]
      [] k = 2 -> [i \in 1..900 |-> (((i * i) \div 7 + i \div 5) % 4) + 65]
      [] k = 3 -> [i \in 1..400 |-> (i * 89) % 256]
      [] k = 4 -> [i \in 1..1300 |-> (i * i + 3 * i) % 241]
      [] k = 5 -> [i \in 1..3000 |-> ((i % 1000) * (i % 1000) + 11 * i) % 239]
      [] k = 6 -> [i \in 1..7000 |-> ((i % 1000) * (i % 1000) + 13 * i + i \div 256) % 253]
PickLzwLong ==
    /\ pc = "pick"
    /\ \E k \in 1..NLong, early \in {0, 1} :
          \E form \in (LzwForms(early) \ {"array"}) \cup (IF k = 1 THEN {"array"} ELSE {}) :
             case' = ChainCase("lzwlong", LongPattern(k), <<LzwStage(early, form)>>, <<Ch0>>, form)
    /\ pc' = "case"

\* PNG predictors: every row geometry, every assignment of filter types to rows
DA == <<37, 1, 0, 85>>
DB == <<11, 127, 0, 3>>
DC == <<200, 255, 255, 0>>
Data(d, n) == [i \in 1..n |-> (DA[d] * i * i + DB[d] * i + DC[d]) % 256]
PredHint(fts) == IF \A r \in 1..Len(fts) : fts[r] = fts[1] THEN 10 + fts[1] ELSE 15
PickPng ==
    /\ pc = "pick"
    /\ \E columns \in 1..MaxCols, colors \in ColorSet, bpc \in {8, 16}, rows \in 1..MaxRows, d \in 1..NData,
          f \in {Flate, Lzw}, form \in {"dict", "array"} :
          \E fts \in [1..rows -> 0..4] :
             LET p == Parms(PredHint(fts), colors, bpc, columns, 1) IN
             case' = ChainCase("png", Data(d, rows * RowLen(p)), <<Stage(f, p)>>, <<[Ch0 EXCEPT !.fts = fts]>>, form)
    /\ pc' = "case"

\* all 2x2 frames over ByteCube (bpp 1): the byte arithmetic of every filter incl. wrap-around
PickPngBytes ==
    /\ pc = "pick"
    /\ \E data \in [1..4 -> ByteCube], fts \in [1..2 -> 0..4] :
          case' = ChainCase("pngbytes", data, <<Stage(Flate, Parms(15, 1, 8, 2, 1))>>, <<[Ch0 EXCEPT !.fts = fts]>>, "dict")
    /\ pc' = "case"

\* Paeth on the stratified cube, through the public decode_row: prev = <<c, b>>, cur = <<a - c, 0>>
\* reconstructs to <<a, Paeth(a, b, c)>>
\* plus the triples on which two of the three distances tie (2a + b = 3c: above/upper-left tie;
\* a + 2b = 3c: left/upper-left tie; a left/above tie forces upper-left to win or all equal)
PaethTriples ==
    (Strat \X Strat \X Strat)
    \cup {<<a, 3 * c - 2 * a, c>> : <<a, c>> \in {ac \in Strat \X Strat : 3 * ac[2] - 2 * ac[1] \in 0..255}}
    \cup {<<a, (3 * c - a) \div 2, c>> : <<a, c>> \in {ac \in Strat \X Strat : 3 * ac[2] >= ac[1] /\ (3 * ac[2] - ac[1]) % 2 = 0
                                                                              /\ (3 * ac[2] - ac[1]) \div 2 \in 0..255}}
PickPaeth ==
    /\ pc = "pick"
    /\ \E t \in PaethTriples : LET a == t[1] b == t[2] c == t[3] IN
          case' = [k |-> "row", fam |-> "row4", ft |-> 4, bpp |-> 1, prev |-> <<c, b>>, cur |-> <<(a + 256 - c) % 256, 0>>,
                   abc |-> <<a, b, c>>]
    /\ pc' = "case"

\* None / Sub / Up / Average rows with bpp 1 and 2 on stratified values
PickRow ==
    /\ pc = "pick"
    /\ \E ft \in 0..3, bpp \in {1, 2}, a \in StratRow, b \in StratRow, x \in StratRow :
          case' = [k |-> "row", fam |-> "row", ft |-> ft, bpp |-> bpp, prev |-> <<b, a, x>>, cur |-> <<a, x, b>>, abc |-> <<a, b, x>>]
    /\ pc' = "case"

\* encode_row then decode_row is the identity: all five filter types, bpp 1 and 2, every pair of rows of two bytes
\* over RowAlph (and of three bytes over RowAlph3)
PickRowEnc ==
    /\ pc = "pick"
    /\ \E ft \in 0..4, bpp \in {1, 2} :
          \/ \E prev \in [1..2 -> RowAlph], raw \in [1..2 -> RowAlph] :
                case' = [k |-> "row", fam |-> "rowenc", ft |-> ft, bpp |-> bpp, prev |-> prev, cur |-> raw, abc |-> <<-1, -1, -1>>]
          \/ \E prev \in [1..3 -> RowAlph3], raw \in [1..3 -> RowAlph3] :
                case' = [k |-> "row", fam |-> "rowenc", ft |-> ft, bpp |-> bpp, prev |-> prev, cur |-> raw, abc |-> <<-1, -1, -1>>]
    /\ pc' = "case"

\* chains of 2..MaxChain stages over six stage templates; the stages are made concrete from the
\* innermost (last decoded) outwards because a predictor's Columns depends on the data it sees
Templates == {"a85", "fl", "flp", "lz0", "lz1", "lzp", "ahx", "rl", "flt"}
ChainPlains == {<<>>, <<7, 0, 0, 0, 0, 250, 7>>}
\* Average rows only in the last stage: a stage that is known to reconstruct Average rows wrongly
\* (png.avg) would hand garbage to the stages after it, whose treatment of invalid data no
\* specification predicts - the finding could then not be recognised by its exact effect
NoAvg(ft, last) == IF ft = 3 /\ ~last THEN 4 ELSE ft
ConcreteStage(t, x, ft0, last) ==
    LET n == Len(x) ft == NoAvg(ft0, last) IN
    CASE t = "a85" -> [st |-> Stage(A85, DefaultParms), ch |-> Ch0]
      [] t = "fl"  -> [st |-> Stage(Flate, DefaultParms), ch |-> [Ch0 EXCEPT !.bs = 5]]
      [] t = "ahx" -> [st |-> Stage(AHx, DefaultParms), ch |-> [Ch0 EXCEPT !.style = <<"upper", "lower", "ws", "odd", "noeod">>[(n % 5) + 1]]]
      [] t = "rl"  -> [st |-> Stage(RL, DefaultParms), ch |-> [Ch0 EXCEPT !.seg = 2 + ft0, !.eod = (n % 2 = 0)]]
      [] t = "flt" -> [st |-> Stage(Flate, Parms(2, 1, 4, IF n = 0 THEN 1 ELSE n, 1)),            \* TIFF predictor, 4-bit samples, rows of ceil(n/2) bytes
                       ch |-> Ch0]
      [] t = "flp" -> [st |-> Stage(Flate, Parms(10 + ft, 1, 8, IF n = 0 THEN 1 ELSE n, 1)),      \* one row
                       ch |-> [Ch0 EXCEPT !.fts = IF n = 0 THEN <<>> ELSE <<ft>>]]
      [] t = "lz0" -> [st |-> Stage(Lzw, Parms(1, 1, 8, 1, 0)), ch |-> Ch0]
      [] t = "lz1" -> [st |-> Stage(Lzw, DefaultParms), ch |-> [Ch0 EXCEPT !.reset = 261]]
      [] t = "lzp" -> LET cols == IF n % 2 = 0 THEN 2 ELSE 1 IN                                      \* rows of 1 or 2 bytes
                      [st |-> Stage(Lzw, Parms(15, 1, 8, cols, 1)),
                       ch |-> [Ch0 EXCEPT !.fts = [r \in 1..(n \div cols) |-> NoAvg((r + ft0) % 5, last)]]]
BuildChain(plain, ts) ==
    LET n == Len(ts) IN
    FoldLeft(LAMBDA acc, j : LET i  == n + 1 - j
                                 cs == ConcreteStage(ts[i], acc.x, (i + Len(plain)) % 5, i = n)
                             IN [x |-> EncodeStage(acc.x, cs.st, cs.ch), chain |-> <<cs.st>> \o acc.chain,
                                 sfts |-> <<cs.ch.fts>> \o acc.sfts],
             [x |-> plain, chain |-> <<>>, sfts |-> <<>>], [j \in 1..n |-> j])
PickChain ==
    /\ pc = "pick"
    /\ \E n \in 2..MaxChain, plain \in ChainPlains :
          \E ts \in [1..n -> Templates] :
             LET b == BuildChain(plain, ts) IN
             \E form \in IF \E i \in 1..n : b.chain[i].present THEN {"array"} ELSE {"none", "array"} :
                case' = [k |-> "chain", fam |-> "chain", plain |-> plain, chain |-> b.chain, form |-> form, ws |-> -1, ff |-> "std",
                         fts |-> <<>>, sfts |-> b.sfts, enc |-> b.x]
    /\ pc' = "case"

\* the full Paeth cube, one 256-entry row per (left, above); two levels so that the rows of
\* different `left` values are computed by different TLC workers
PickPaethLeft ==
    /\ pc = "pick"
    /\ \E a \in 0..(PaethPlanes - 1) : case' = [k |-> "pleft", a |-> a]
    /\ pc' = "pleft"
PickPaethPlane ==
    /\ pc = "pleft"
    /\ \E b \in 0..255 : case' = [k |-> "prow", a |-> case.a, b |-> b,
                                   row |-> [c \in 1..256 |-> PaethPredictor(case.a, b, c - 1)]]
    /\ pc' = "case"

\* ASCIIHexDecode: every input; upper / lower / mixed case, white-space of every kind between and inside the pairs,
\* an odd number of digits (final 0 left out), no EOD marker
PickAHx ==
    /\ pc = "pick"
    /\ \E plain \in SeqsUpTo(AlphH, MaxLenH) \cup {<<1, 35, 69, 103, 137, 171, 205, 239, 16>>}, style \in {"upper", "lower", "ws", "odd", "noeod"} :
          case' = ChainCase("ahx", plain, <<Stage(AHx, DefaultParms)>>, <<[Ch0 EXCEPT !.style = style]>>, "none")
    /\ pc' = "case"

\* RunLengthDecode: runs and literal pieces of 1, 2, 127 and 128 bytes (the length byte's whole range), with and
\* without the EOD byte; and every short string over two symbols cut into pieces of 1..3
RLData(kind, n) ==
    CASE kind = "run" -> [i \in 1..n |-> 77]
      [] kind = "lit" -> [i \in 1..n |-> (i * 7) % 251]
      [] kind = "mix" -> [i \in 1..n |-> IF i <= n \div 2 THEN 128 ELSE (i * 5) % 256]
PickRL ==
    /\ pc = "pick"
    /\ \/ \E kind \in {"run", "lit", "mix"}, n \in {1, 2, 127, 128, 129, 256, 300}, seg \in {1, 2, 127, 128}, eod \in BOOLEAN :
             case' = ChainCase("rl", RLData(kind, n), <<Stage(RL, DefaultParms)>>, <<[Ch0 EXCEPT !.seg = seg, !.eod = eod]>>, "none")
       \/ \E plain \in SeqsUpTo({0, 128}, 4), seg \in 1..3, eod \in BOOLEAN :
             case' = ChainCase("rl", plain, <<Stage(RL, DefaultParms)>>, <<[Ch0 EXCEPT !.seg = seg, !.eod = eod]>>, "none")
    /\ pc' = "case"

\* TIFF predictor 2: every BitsPerComponent x Colors x Columns geometry, one or two rows, also a short last row
PickTiff ==
    /\ pc = "pick"
    /\ \E bpc \in {1, 2, 4, 8, 16}, colors \in ColorSet, columns \in {1, 2, 3, 5}, rows \in 1..2, cut \in {0, 1}, d \in 1..NData,
          f \in {Flate, Lzw}, form \in {"dict", "array"} :
          LET p == Parms(2, colors, bpc, columns, 1)
              n == rows * RowLen(p) - cut IN
          /\ n >= 1
          /\ case' = ChainCase("tiff", Data(d, n), <<Stage(f, p)>>, <<Ch0>>, form)
    /\ pc' = "case"

\* PNG predictors with components of fewer than 8 bits: rows of ceil(Columns * Colors * BPC / 8) bytes, the left
\* neighbour max(1, ceil(Colors * BPC / 8)) bytes away
PickPngSub ==
    /\ pc = "pick"
    /\ \E bpc \in {1, 2, 4}, colors \in ColorSet \cup {3}, columns \in {1, 3, 5, 9}, rows \in 1..MaxRows, d \in 1..NData :
          \E fts \in [1..rows -> 0..4] :
             LET p == Parms(PredHint(fts), colors, bpc, columns, 1) IN
             case' = ChainCase("pngsub", Data(d, rows * RowLen(p)), <<Stage(IF d = 1 THEN Flate ELSE Lzw, p)>>,
                               <<[Ch0 EXCEPT !.fts = fts]>>, IF (rows + columns) % 2 = 0 THEN "dict" ELSE "array")
    /\ pc' = "case"

\* Indirect references (ISO 32000-1 7.3.10: the value of any dictionary entry may be one): the same streams with
\* /DecodeParms n 0 R, /DecodeParms [n 0 R], one parameter value n 0 R, /Filter n 0 R or /Filter [n 0 R].  `chain` holds
\* the *resolved* stages - that is what ISO says the stream means.  The methods of Stream have no Document to resolve
\* a reference with, so the specified behaviour is: refuse (Err) or be right, never guess.
IndBase ==
    {[plain |-> Data(1, 8), chain |-> <<Stage(Flate, Parms(12, 1, 8, 4, 1))>>, chs |-> <<[Ch0 EXCEPT !.fts = <<2, 2>>]>>],
     [plain |-> Data(2, 6), chain |-> <<Stage(Lzw, Parms(2, 1, 4, 3, 1))>>, chs |-> <<Ch0>>],
     [plain |-> LongPattern(1), chain |-> <<Stage(Lzw, Parms(1, 1, 8, 1, 0))>>, chs |-> <<Ch0>>],
     [plain |-> <<77, 97, 110, 32, 105>>, chain |-> <<Stage(A85, DefaultParms)>>, chs |-> <<Ch0>>],
     [plain |-> Data(1, 6), chain |-> <<Stage(AHx, DefaultParms), Stage(Flate, Parms(11, 2, 4, 3, 1))>>,
      chs |-> <<Ch0, [Ch0 EXCEPT !.fts = <<1, 4>>]>>]}
IndForms(b) ==
    LET n == Len(b.chain)
        withP == {i \in 1..n : b.chain[i].present}
        keysOf(st) == (IF st.pred # 1 THEN {"Predictor"} ELSE {}) \cup (IF st.columns # 1 THEN {"Columns"} ELSE {})
                      \cup (IF st.colors # 1 THEN {"Colors"} ELSE {}) \cup (IF st.bpc # 8 THEN {"BitsPerComponent"} ELSE {})
                      \cup (IF st.f = Lzw /\ st.early # 1 THEN {"EarlyChange"} ELSE {})
    IN {[ind |-> "filter", idx |-> 0, key |-> "", form |-> IF withP = {} THEN "none" ELSE IF n = 1 THEN "dict" ELSE "array"]}
       \cup {[ind |-> "filter-elem", idx |-> i, key |-> "", form |-> IF withP = {} THEN "none" ELSE "array"] : i \in 1..n}
       \cup (IF n = 1 /\ withP # {} THEN {[ind |-> "parms", idx |-> 1, key |-> "", form |-> "dict"]} ELSE {})
       \cup {[ind |-> "parms-elem", idx |-> i, key |-> "", form |-> "array"] : i \in withP}
       \cup {[ind |-> "value", idx |-> i, key |-> k, form |-> IF n = 1 THEN "dict" ELSE "array"] : <<i, k>> \in {ik \in withP \X
                {"Predictor", "Columns", "Colors", "BitsPerComponent", "EarlyChange"} : ik[2] \in keysOf(b.chain[ik[1]])}}
PickIndirect ==
    /\ pc = "pick"
    /\ \E b \in IndBase : \E f \in IndForms(b) :
          case' = [ind |-> f.ind, idx |-> f.idx, key |-> f.key] @@ ChainCase("indirect", b.plain, b.chain, b.chs, f.form)
    /\ pc' = "case"

\* the chain of zero filters in its three spellings (no Filter entry, /Filter null, /Filter []), with
\* no DecodeParms, an empty DecodeParms array, or a left-over DecodeParms dictionary; the encoded
\* bytes are the plain bytes
ZeroPlains == {<<>>, <<7>>, <<3, 1, 2, 0, 255>>, [i \in 1..40 |-> IF i % 2 = 0 THEN 7 ELSE 9]}
PickNoFilter ==
    /\ pc = "pick"
    /\ \E plain \in ZeroPlains, ff \in {"absent", "null", "empty"}, form \in {"none", "array", "dict"} :
          case' = [k |-> "chain", fam |-> "nofilter", plain |-> plain, chain |-> <<>>, form |-> form, ws |-> -1, ff |-> ff,
                   fts |-> <<>>, sfts |-> <<>>, enc |-> plain]
    /\ pc' = "case"

\* Disturbances: streams that the thread may have decoded before a judged case (history independence).  A wide
\* predictor frame (2 rows of 20 non-zero bytes, first row Up, second Paeth) is damaged at every possible point:
\* the PNG data cut at each offset, an invalid filter-type byte in row k, the zlib stream cut at each offset, the
\* ASCII85 text cut at each offset or with an overflowing group, an LZW stream with an undefined code; and the
\* legal frame itself.  Every damaged stream fails in the reference decoder (DisturbFails).
WideData == [i \in 1..40 |-> ((i * 7 + 13) % 251) + 1]
WideParms == Parms(12, 1, 8, 20, 1)
WidePng == PngEncode(WideData, 1, 20, <<2, 4>>)
WideZ == ZStored(WidePng, 16)
WideA == A85Encode(WideZ, TRUE)
Dist(kind, at, chain, form, enc) == [k |-> "disturb", kind |-> kind, at |-> at, chain |-> chain, form |-> form, ff |-> "std", enc |-> enc]
Disturbances ==
    {Dist("ok", 0, <<Stage(Flate, WideParms)>>, "dict", WideZ)}
    \cup {Dist("png.cut-row", o, <<Stage(Flate, WideParms)>>, "dict", ZStored(SubSeq(WidePng, 1, o), 65535)) : o \in (1..41) \ {21}}
    \cup {Dist("png.cut-row", o, <<Stage(Lzw, WideParms)>>, "dict", LzwEncode(SubSeq(WidePng, 1, o), 1, 4094)) : o \in {22, 31, 41}}
    \cup {Dist("png.bad-type", k, <<Stage(Flate, WideParms)>>, "array", ZStored([WidePng EXCEPT ![(k - 1) * 21 + 1] = t], 65535)) :
             k \in 1..2, t \in {5, 9, 255}}
    \cup {Dist("zlib.cut", t, <<Stage(Flate, WideParms)>>, "dict", SubSeq(WideZ, 1, t)) : t \in 1..(Len(WideZ) - 1)}
    \cup {Dist("a85.cut", t, <<Stage(A85, DefaultParms), Stage(Flate, WideParms)>>, "array", SubSeq(WideA, 1, t)) :
             t \in {t \in 1..(Len(WideA) - 2) : t % 3 = 0}}
    \cup {Dist("a85.bad-group", 1, <<Stage(A85, DefaultParms), Stage(Flate, WideParms)>>, "array", <<117, 117, 117, 117, 117>> \o WideA),
          Dist("a85.bad-group", 40, <<Stage(A85, DefaultParms), Stage(Flate, WideParms)>>, "array", InsertAt(WideA, 40, 122)),
          Dist("lzw.bad-code", 2, <<Stage(Lzw, WideParms)>>, "dict", <<128, 127, 255, 255>>),
          Dist("lzw.bad-code", 9, <<Stage(Lzw, WideParms)>>, "dict",
               SubSeq(LzwEncode(WidePng, 1, 4094), 1, 9) \o <<255, 255, 255, 255>>)}
PickDisturb ==
    /\ pc = "pick"
    /\ \E d \in Disturbances : case' = d
    /\ pc' = "case"

Next == PickDisturb \/ PickPaethLeft \/ PickPaethPlane \/ PickA85 \/ PickA85Ws \/ PickZ \/ PickLzw \/ PickLzwLong \/ PickPng \/ PickPngBytes \/ PickPaeth \/ PickRow \/ PickChain \/ PickNoFilter \/ PickAHx \/ PickRL \/ PickTiff \/ PickPngSub \/ PickRowEnc \/ PickIndirect

Spec == Init /\ [][Next]_vars

-----------------------------------------------------------------------------
IsChain == pc = "case" /\ case.k = "chain"
IsRow   == pc = "case" /\ case.k = "row"

\* every damaged stream really fails in the reference decoder; the legal one decodes to the frame
DisturbFails ==
    (pc = "case" /\ case.k = "disturb") =>
        IF case.kind = "ok" THEN Decode(case.enc, case.chain) = Good(WideData) ELSE ~Decode(case.enc, case.chain).ok

\* (declarative) the reference decoder inverts the reference encoder, for every codec and chain
RoundTrip == IsChain => Decode(case.enc, case.chain) = Good(case.plain)

\* the reference encoders really produce what they claim (anti-vacuity of RoundTrip): the encoded
\* form differs from the plain one and PNG data carries one filter byte per row
EncoderShape ==
    IsChain => /\ ((case.chain # <<>> /\ case.plain # <<>>) => case.enc # case.plain)
               /\ case.fam \in {"png", "pngsub"} =>
                     LET st == case.chain[1]
                         z  == IF st.f = Flate THEN ZInflateStored(case.enc) ELSE LzwDecode(case.enc, st.early)
                     IN z.ok /\ Len(z.data) = Len(case.plain) + Len(case.fts)

\* (impl-shaped, as repaired) lopdf's algorithm without the confirmed deviations refines the declarative layer
\* decompressed_content is defined for a chain of zero filters only in the spelling /Filter []
HasDecode(c) == (c.chain # <<>> \/ c.ff = "empty") /\ c.fam # "indirect"
ImplRepaired(c) == IF c.chain = <<>> THEN ImplDecodeZero(c.enc, c.ff, FALSE)
                   ELSE ImplDecodeO(c.enc, c.chain, c.form, NoOracle, FALSE, FALSE, FALSE)
ImplAsIs(c)     == IF c.chain = <<>> THEN ImplDecodeZero(c.enc, c.ff, DevEmpty)
                   ELSE ImplDecodeO(c.enc, c.chain, c.form, NoOracle, DevAvg, DevArr, DevNul)
Refines == (IsChain /\ HasDecode(case)) => ImplRepaired(case) = Good(case.plain)

\* Indirect forms.  Impl-shaped: what Stream::decompressed_content / get_plain_content make of them.
\*   devInd  an entry written as a reference is treated as if it were not there (parameters: defaults; Filter: no
\*           filter, so get_plain_content hands out the encoded bytes); repaired = the call is refused
IsInd == IsChain /\ case.fam = "indirect"
AbsentStage(c, i) ==
    LET st == c.chain[i] IN
    IF c.ind = "parms" \/ (c.ind = "parms-elem" /\ c.idx = i) THEN Stage(st.f, DefaultParms)
    ELSE IF c.ind = "value" /\ c.idx = i
    THEN [st EXCEPT !.pred = IF c.key = "Predictor" THEN 1 ELSE @, !.columns = IF c.key = "Columns" THEN 1 ELSE @,
                    !.colors = IF c.key = "Colors" THEN 1 ELSE @, !.bpc = IF c.key = "BitsPerComponent" THEN 8 ELSE @,
                    !.early = IF c.key = "EarlyChange" THEN 1 ELSE @]
    ELSE st
ImplIndDecode(c, devInd) ==
    IF ~devInd \/ c.ind \in {"filter", "filter-elem"} THEN Fail(<<>>)
    ELSE ImplDecodeO(c.enc, [i \in 1..Len(c.chain) |-> AbsentStage(c, i)], IF c.ind = "parms" THEN "none" ELSE c.form,
                     NoOracle, FALSE, FALSE, FALSE)
ImplIndPlain(c, devInd) ==
    IF devInd /\ c.ind \in {"filter", "filter-elem"} THEN Good(c.enc) ELSE ImplIndDecode(c, devInd)
AcceptInd(c, r) == ~r.ok \/ r.data = c.plain               \* refuse, or be right
RefinesInd == IsInd => AcceptInd(case, ImplIndDecode(case, FALSE)) /\ AcceptInd(case, ImplIndPlain(case, FALSE))
\* (as the code is) with devInd the guess is wrong somewhere in every kind of reference - the class is its name
IndClasses(c) == IF c.fam = "indirect" THEN {"indirect." \o c.ind} ELSE {}

\* classes of input on which the code deviates when the corresponding switch is on (the narrow signatures
\* of the findings png.avg, decodeparms.array, a85.nul - all repaired; kept to name regressions);
\* a case may belong to several
Classes(c) ==
    (IF c.ws = 0 THEN {"a85.nul"} ELSE {})
    \cup (IF c.form = "array" /\ \E i \in 1..Len(c.chain) :
                c.chain[i].present /\ (UsesPng(c.chain[i]) \/ (c.chain[i].f = Lzw /\ c.chain[i].early = 0))
          THEN {"decodeparms.array"} ELSE {})
    \cup (IF \E i \in 1..Len(c.chain) :
                /\ c.chain[i].present /\ UsesPng(c.chain[i]) /\ RowLen(c.chain[i]) > Bpp(c.chain[i])
                /\ \E r \in 1..Len(c.sfts[i]) : c.sfts[i][r] = 3
          THEN {"png.avg"} ELSE {})
    \cup (IF c.chain = <<>> /\ c.ff = "empty" /\ c.plain # <<>> THEN {"filter.empty-array"} ELSE {})

\* (impl-shaped, as the code is) every deviation of the design falls in a listed class
DevExplained == (IsChain /\ HasDecode(case)) => (ImplAsIs(case) # Good(case.plain) => Classes(case) # {})
\* the Average deviation alone (parameters honoured in both forms)
ImplAvgOnly(c) == IF c.chain = <<>> THEN ImplRepaired(c) ELSE ImplDecodeO(c.enc, c.chain, c.form, NoOracle, TRUE, FALSE, FALSE)

\* Paeth: the PNG pseudo-code against its defining property - the value among a, b, c closest to
\* a + b - c, ties broken in the order a, b, c
PaethDecl(a, b, c) ==
    LET p == a + b - c
        d(x) == Abs(p - x)
        best == CHOOSE x \in {a, b, c} : \A y \in {a, b, c} : d(x) <= d(y) /\
                    (d(x) = d(a) => x = a) /\ (d(a) # d(x) /\ d(x) = d(b) => x = b)
    IN best
RowWant(c) == PngDecodeRow(c.ft, c.bpp, c.prev, c.cur)
RowImpl(c) == ImplPngDecodeRow(c.ft, c.bpp, c.prev, c.cur, DevAvg)
RowAvgDev(c) == ImplPngDecodeRow(c.ft, c.bpp, c.prev, c.cur, TRUE)     \* the row as the repaired png.avg defect computed it
PaethOK ==
    (IsRow /\ case.ft = 4 /\ case.abc[1] >= 0) =>
        /\ PaethPredictor(case.abc[1], case.abc[2], case.abc[3]) = PaethDecl(case.abc[1], case.abc[2], case.abc[3])
        /\ RowWant(case) = <<case.abc[1], PaethPredictor(case.abc[1], case.abc[2], case.abc[3])>>
\* every row case is used in both directions: `cur` as filtered data (decode_row) and as raw data (encode_row)
RowEncWant(c) == PngEncodeRow(c.ft, c.bpp, c.prev, c.cur)
RowEncImpl(c) == ImplPngEncodeRow(c.ft, c.bpp, c.prev, c.cur, DevEncAvg)
RowEncDev(c)  == ImplPngEncodeRow(c.ft, c.bpp, c.prev, c.cur, TRUE)
RowOK == IsRow => /\ PngDecodeRow(case.ft, case.bpp, case.prev, RowEncWant(case)) = case.cur
                  /\ ImplPngEncodeRow(case.ft, case.bpp, case.prev, case.cur, FALSE) = RowEncWant(case)
                  /\ (RowImpl(case) # RowWant(case) => case.ft = 3)
                  /\ (RowEncImpl(case) # RowEncWant(case) => case.ft = 3 /\ Len(case.cur) > case.bpp)

EmitInv ==
    (Emit /\ pc = "case") =>
        IF case.k = "prow" THEN PrintT(<<"PAETH", ToJson([a |-> case.a, b |-> case.b, row |-> case.row])>>) ELSE
        IF case.k = "disturb" THEN PrintT(<<"DISTURB", ToJson(case)>>) ELSE
        PrintT(<<"REPLAY",
                 IF case.k = "chain"
                 THEN ToJson([k |-> "chain", fam |-> case.fam, plain |-> case.plain, enc |-> case.enc, chain |-> case.chain,
                              form |-> case.form, ff |-> case.ff, fts |-> case.fts, impl |-> ImplAsIs(case), implAvg |-> ImplAvgOnly(case),
                              cls |-> SetToSeq(Classes(case) \cup IndClasses(case))]
                             @@ (IF case.fam = "indirect"
                                 THEN [ind |-> case.ind, idx |-> case.idx, key |-> case.key,
                                       impldc |-> ImplIndDecode(case, DevInd), implgp |-> ImplIndPlain(case, DevInd)]
                                 ELSE <<>>))
                 ELSE ToJson([k |-> "row", fam |-> case.fam, ft |-> case.ft, bpp |-> case.bpp, prev |-> case.prev, cur |-> case.cur,
                              want |-> RowWant(case), impl |-> RowImpl(case), avgdev |-> RowAvgDev(case),
                              encwant |-> RowEncWant(case), encdev |-> RowEncDev(case)])>>)
=============================================================================
