SPECIFICATION Spec
CONSTANTS
  Universe = "inlt"
  Emit = FALSE
  SepMode = "min"
INVARIANTS RoundTrip EmitInv
CHECK_DEADLOCK FALSE
