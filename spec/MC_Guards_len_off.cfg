SPECIFICATION Spec
CONSTANTS
  Model = "len"
  N = 4
  MaxB = 2
  GuardOn = FALSE
INVARIANTS Variant Refines
CHECK_DEADLOCK FALSE
