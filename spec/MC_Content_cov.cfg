SPECIFICATION Spec
CONSTANTS
  Universe = "mix"
  Emit = FALSE
  SepMode = "min"
CHECK_DEADLOCK FALSE
