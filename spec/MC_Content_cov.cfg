SPECIFICATION Spec
CONSTANTS
  Universe = "cov"
  Emit = FALSE
  SepMode = "min"
CHECK_DEADLOCK FALSE
