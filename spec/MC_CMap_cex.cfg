SPECIFICATION Spec
CONSTANTS
  Lens = {1}
  NCodes = 3
  MaxDefs = 2
  Dev_h34 = TRUE
  Dev_h35 = TRUE
  Emit = FALSE
  KnownClasses = {}
  Rich = TRUE
  BaseVal <- BaseEdge
INVARIANTS RefinesCex
CHECK_DEADLOCK FALSE
