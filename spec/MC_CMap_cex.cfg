SPECIFICATION Spec
CONSTANTS
  Lens = {1}
  NCodes = 3
  MaxDefs = 2
  Dev_h34 = TRUE
  Dev_h35 = TRUE
  Emit = FALSE
  KnownClasses = {}
  Rich = TRUE
  SingleRangeStr = FALSE
  Styles <- CanonOnly
  Dev_gram <- GramAsIs
  BaseVal <- BaseEdge
INVARIANTS RefinesCex
CHECK_DEADLOCK FALSE
