SPECIFICATION Spec
CONSTANTS
  Lens = {1}
  NCodes = 3
  MaxDefs = 2
  Dev_h34 = TRUE
  Dev_h35 = TRUE
  Emit = FALSE
  KnownClasses = {}
  BaseVal <- BaseEdge
INVARIANTS Refines
CHECK_DEADLOCK FALSE
