SPECIFICATION Spec
CONSTANTS
  Lens = {1}
  NCodes = 3
  MaxDefs = 2
  Dev_h34 = TRUE
  Dev_h35 = TRUE
  Emit = FALSE
  KnownClasses = {}
  Rich = TRUE
  Dev_gram = TRUE
  SingleRangeStr = FALSE
  Styles <- CanonOnly
  BaseVal <- BaseEdge
INVARIANTS RefinesCex
CHECK_DEADLOCK FALSE
