SPECIFICATION Spec
CONSTANTS
  Universe = "seq2s"
  Emit = FALSE
  SepMode = "min"
INVARIANTS RoundTrip EmitInv
CHECK_DEADLOCK FALSE
