----------------------------- MODULE Adversary -----------------------------
(***************************************************************************)
(* C04 - the Adversary: mutation actions composed with the Producer.        *)
(*                                                                          *)
(* A behaviour first yields a LEGAL input:                                  *)
(*   Mode = "producer": the Producer state machine of SyntaxProducer /      *)
(*       Gen_File (variables out, todo, offs, plan) lays out a whole PDF    *)
(*       file; every step is wrapped (AProduce) so that a SITE LOG is kept  *)
(*       in parallel with `out`: the byte extent of every numeric token the *)
(*       Producer writes together with what it is (the dictionary key it    *)
(*       follows and its position after that key: Length#1, Size#1, W#2,    *)
(*       Index#1, Prev#1, N#1, First#1; object number, generation, the      *)
(*       numbers of a cross-reference table by field, startxref).           *)
(*   Mode = "seeds": a legal input of another byte-level entry point        *)
(*       (content stream, ToUnicode CMap program, filter payload + stream   *)
(*       dictionary, object stream, cross-reference stream, text string,    *)
(*       PNG rows) or a real file (repository assets, files saved by        *)
(*       lopdf), read from IOEnv.SEEDS; sites are located by a lexical      *)
(*       scan (digit runs with the name they follow, <hex> strings) and, in *)
(*       the stream dictionary, by path.                                    *)
(* Then up to MaxMut ADVERSARY steps are taken, each a named action (so     *)
(* coverage is measurable):                                                 *)
(*   FlipByte  Truncate  SpliceToken  SetNumber  SetHex  NestDeep           *)
(*   MakeCycle  DropKeyword  SwapEntry  RepeatToken  PadTail  InsertKey     *)
(*   MakeChain  DecoyKeyword                                                *)
(* and after the parse comes the USE: UseStep lays down which public calls  *)
(* are made on the parsed value under the same guard, and for a CMap the    *)
(* codes to decode - the boundaries of the mutated CMap's own ranges.       *)
(* the result is emitted (EmitCase, a single-successor step), the input is  *)
(* reset to the legal one and the next round starts (Rounds rounds per      *)
(* behaviour; round 0 emits the legal input itself).                        *)
(*                                                                          *)
(* Totality: the StrictReader returns ok = FALSE with an error rather than  *)
(* failing, so TLC must be able to evaluate it on EVERY adversarial output. *)
(* EmitCase evaluates RdFileT (files), Read in content mode (content        *)
(* streams), ParseObjStm (object streams); a TLC evaluation error means the *)
(* specification is not total.                                              *)
(***************************************************************************)
EXTENDS Gen_File

\* TLC orders record fields by first mention while parsing (root module first): the kind field `k` must come
\* before the payload fields so that object values of different kinds are unequal without their payloads
\* ever being compared (a function-valued `v` against a sequence-valued one is a TLC evaluation error).
KindFirst_Adversary(o) == <<o.k, o.neg, o.v, o.w>>

CONSTANTS Mode,       \* "producer" | "seeds"
          MaxMut,     \* adversary steps per round
          Rounds      \* rounds per behaviour (plus round 0: the legal input)

Seeds == ndJsonDeserialize(IOEnv.SEEDS)

VARIABLES ph,       \* "produce" | "pick" | "apply" | "emit" | "emitted" | "end"
          ep,       \* entry point: "file" | "content" | "cmap" | "onebyte" | "filter" | "objstm" | "xrefstm" | "textstr" | "png"
          seed,     \* [tag, txt, toks]: where the legal input came from; is it text; its token alphabet
          sites,    \* site log of `out`
          lex,      \* lexical context of the site logger during production: [name, idx, c]
          adict,    \* the stream dictionary that goes with `out` (sequence of <<key, value>>; <<>> if none)
          base,     \* [bytes, sites, dict, rd]: the legal input (set when production finishes)
          mk,       \* the mutation kind picked for the next apply step
          nmut, round,
          mlog,     \* the mutations applied in this round
          judge     \* what the StrictReader says about the emitted bytes

avars == <<ph, ep, seed, sites, lex, adict, base, mk, nmut, round, mlog, judge>>
pvars_rest == <<todo, offs, plan, outer, moffs>>
allvars == <<pvars, di, fin, avars>>

-----------------------------------------------------------------------------
(* Sites *)

MkSite(form, s, e, name, idx) == [form |-> form, s |-> s, e |-> e, name |-> name, idx |-> idx, x |-> <<>>]

NmObjNum  == <<111, 98, 106, 110, 117, 109>>                  \* "objnum"   object number in "n g obj"
NmObjHdr  == <<111, 98, 106, 104, 100, 114>>                  \* "objhdr"   (generation follows: objhdr#1)
NmXrefOff == <<120, 114, 101, 102, 46, 111, 102, 102>>        \* "xref.off" 10-digit offset of a table entry
NmXrefGen == <<120, 114, 101, 102, 46, 103, 101, 110>>        \* "xref.gen" 5-digit generation
NmXrefHdr == <<120, 114, 101, 102, 46, 104, 100, 114>>        \* "xref.hdr" subsection header numbers
NmStartx  == <<115, 116, 97, 114, 116, 120, 114, 101, 102>>   \* "startxref"
NmNone    == <<>>

IntLike(t) ==
    /\ t # <<>>
    /\ \A i \in 1..Len(t) : IsDigit(t[i]) \/ (i = 1 /\ t[i] \in {43, 45})
    /\ IsDigit(t[Len(t)])

DecodeName(t) ==      \* t: a spelled name including the solidus; #XX resolved
    FoldLeft(LAMBDA acc, b :
                IF acc.h = 1 THEN [acc EXCEPT !.h = 2, !.v = (HexVal(b) % 16)]
                ELSE IF acc.h = 2 THEN [o |-> Append(acc.o, (acc.v * 16) + (HexVal(b) % 16)), h |-> 0, v |-> 0]
                ELSE IF b = 35 THEN [acc EXCEPT !.h = 1]
                ELSE [acc EXCEPT !.o = Append(@, b)],
             [o |-> <<>>, h |-> 0, v |-> 0], Tail(t)).o

\* maximal digit runs of seg as <<first, last>> positions shifted by off
DigitRuns(seg, off) ==
    LET r == FoldLeft(LAMBDA acc, i :
                 IF IsDigit(seg[i]) THEN (IF acc.st = 0 THEN [acc EXCEPT !.st = i] ELSE acc)
                 ELSE (IF acc.st # 0 THEN [runs |-> Append(acc.runs, <<off + acc.st, off + i - 1>>), st |-> 0] ELSE acc),
               [runs |-> <<>>, st |-> 0], [i \in 1..Len(seg) |-> i])
    IN IF r.st # 0 THEN Append(r.runs, <<off + r.st, off + Len(seg)>>) ELSE r.runs

\* sites written by the Producer step that consumed work item `it` (out -> nout)
StepSites(it, o, nout, lx) ==
    LET seg == SubSeq(nout, Len(o) + 1, Len(nout))
        runs == DigitRuns(seg, Len(o))
    IN IF Len(nout) <= Len(o) THEN <<>>
       ELSE IF it.w = "tok" THEN
            (IF IntLike(it.b) THEN <<MkSite("dec", Len(nout) - Len(it.b) + 1, Len(nout), lx.name, lx.idx + 1)>>
             ELSE IF Len(it.b) >= 2 /\ it.b[1] = 60 /\ it.b[2] # 60 /\ it.b[Len(it.b)] = 62          \* a hexadecimal string: its digits
                  THEN <<MkSite("hex", Len(nout) - Len(it.b) + 2, Len(nout) - 1, lx.name, 0)>>
             ELSE <<>>)
       ELSE IF it.w = "objhdr" THEN
            (IF runs = <<>> THEN <<>> ELSE LET r == runs[Len(runs)] IN <<MkSite("dec", r[1], r[2], NmObjNum, 1)>>)
       ELSE IF it.w = "xreftable" THEN
            [i \in 1..Len(runs) |->
                LET n == runs[i][2] - runs[i][1] + 1
                IN MkSite("dec", runs[i][1], runs[i][2], IF n = 10 THEN NmXrefOff ELSE IF n = 5 THEN NmXrefGen ELSE NmXrefHdr, 1)]
       ELSE IF it.w = "startxref" THEN
            (IF runs = <<>> THEN <<>> ELSE <<MkSite("dec", runs[1][1], runs[1][2], NmStartx, 1)>>)
       ELSE <<>>

StepLex(it, lx) ==
    IF it.w = "cstart" THEN [lx EXCEPT !.c = TRUE]
    ELSE IF it.w = "cend" THEN [lx EXCEPT !.c = FALSE]
    ELSE IF it.w = "objhdr" THEN [lx EXCEPT !.name = NmObjHdr, !.idx = 0]
    ELSE IF it.w = "tok" /\ it.b # <<>> /\ it.b[1] = 47 THEN [lx EXCEPT !.name = DecodeName(it.b), !.idx = 0]
    ELSE IF it.w = "tok" /\ IntLike(it.b) THEN [lx EXCEPT !.idx = @ + 1]
    ELSE lx

\* lexical scan of a real input: digit runs with the name they follow, <hex> strings
ScanSites(bytes) ==
    LET step(acc, i) ==
            LET b == bytes[i]
                \* close a digit run that ends before i
                a1 == IF acc.ds # 0 /\ ~IsDigit(b)
                      THEN [acc EXCEPT !.out = Append(@, MkSite("dec", acc.ds, i - 1, acc.nm, acc.idx + 1)), !.ds = 0, !.idx = @ + 1]
                      ELSE acc
            IN IF a1.innm THEN
                   (IF IsRegular(b) THEN [a1 EXCEPT !.nm = Append(@, b), !.pr = TRUE] ELSE [a1 EXCEPT !.innm = FALSE, !.pr = FALSE])
               ELSE IF b = 47 THEN [a1 EXCEPT !.innm = TRUE, !.nm = <<>>, !.idx = 0, !.hs = 0, !.pr = FALSE]
               ELSE IF IsDigit(b) THEN
                   (IF a1.ds = 0 /\ ~a1.pr THEN [a1 EXCEPT !.ds = i] ELSE a1)
               ELSE IF b = 60 THEN [a1 EXCEPT !.hs = i + 1, !.pr = FALSE]
               ELSE IF b = 62 /\ a1.hs # 0 /\ (\A j \in a1.hs..(i - 1) : IsHex(bytes[j]) \/ IsWS(bytes[j]))
                    THEN [a1 EXCEPT !.out = Append(@, MkSite("hex", a1.hs, i - 1, a1.nm, a1.hl + 1)), !.hs = 0, !.pr = FALSE, !.hl = @ + 1]
               ELSE [a1 EXCEPT !.pr = IsRegular(b) /\ b \notin {43, 45}, !.hs = IF IsHex(b) \/ IsWS(b) THEN @ ELSE 0,
                               !.hl = IF IsEOLb(b) /\ a1.hs = 0 THEN 0 ELSE @]        \* hex strings are numbered within their line
        r == FoldLeft(step, [out |-> <<>>, ds |-> 0, nm |-> <<>>, innm |-> FALSE, idx |-> 0, hs |-> 0, pr |-> FALSE, hl |-> 0],
                      [i \in 1..Len(bytes) |-> i])
    IN IF r.ds # 0 THEN Append(r.out, MkSite("dec", r.ds, Len(bytes), r.nm, r.idx + 1)) ELSE r.out

\* Replace bytes s..e (e = s - 1: insertion before s) by new; the site log follows
Splice(bytes, s, e, new) == SubSeq(bytes, 1, s - 1) \o new \o SubSeq(bytes, e + 1, Len(bytes))
ShiftSites(ss, s, e, newlen, keep) ==      \* keep: index of a site that is being rewritten itself (0: none)
    LET delta == newlen - (e - s + 1)
        f(i) == LET x == ss[i] IN
                IF i = keep THEN <<[x EXCEPT !.e = s + newlen - 1, !.x = <<>>]>>
                ELSE IF x.e < s THEN <<x>>
                ELSE IF x.s > e THEN <<[x EXCEPT !.s = @ + delta, !.e = @ + delta]>>
                ELSE <<>>
    IN Concat([i \in 1..Len(ss) |-> f(i)])

-----------------------------------------------------------------------------
(* The stream dictionary: paths to its integers *)

RECURSIVE ValPaths(_)
ValPaths(v) ==
    IF v.k = "int" THEN {<<>>}
    ELSE IF v.k = "arr" THEN UNION {{<<j>> \o p : p \in ValPaths(v.v[j])} : j \in 1..Len(v.v)}
    ELSE IF v.k = "dict" THEN UNION {{<<j>> \o p : p \in ValPaths(v.v[j][2])} : j \in 1..Len(v.v)}
    ELSE {}
DictPaths(d) == UNION {{<<i>> \o p : p \in ValPaths(d[i][2])} : i \in 1..Len(d)}

RECURSIVE SetVal(_, _, _)
SetVal(v, path, nv) ==
    IF path = <<>> THEN nv
    ELSE IF v.k = "arr" THEN [v EXCEPT !.v[path[1]] = SetVal(@, Tail(path), nv)]
    ELSE [v EXCEPT !.v[path[1]][2] = SetVal(@, Tail(path), nv)]
SetDict(d, path, nv) == [d EXCEPT ![path[1]][2] = SetVal(@, Tail(path), nv)]

RECURSIVE GetVal(_, _)
GetVal(v, path) == IF path = <<>> THEN v ELSE IF v.k = "arr" THEN GetVal(v.v[path[1]], Tail(path)) ELSE GetVal(v.v[path[1]][2], Tail(path))
GetDict(d, path) == GetVal(d[path[1]][2], Tail(path))

\* the key a path ends under, and the array index below it (1 if none)
RECURSIVE PathKey(_, _, _)
PathKey(v, path, key) ==
    IF path = <<>> THEN [name |-> key, idx |-> 1]
    ELSE IF v.k = "arr" THEN (IF Len(path) = 1 THEN [name |-> key, idx |-> path[1]] ELSE PathKey(v.v[path[1]], Tail(path), key))
    ELSE PathKey(v.v[path[1]][2], Tail(path), v.v[path[1]][1])
DictPathKey(d, path) == PathKey(d[path[1]][2], Tail(path), d[path[1]][1])

PairsToMap(d) == [key \in {d[i][1] : i \in 1..Len(d)} |-> d[CHOOSE i \in 1..Len(d) : d[i][1] = key][2]]

-----------------------------------------------------------------------------
(* The mutation grammar *)

Kinds == {"FlipByte", "Truncate", "SpliceToken", "SetNumber", "SetHex", "NestDeep", "MakeCycle", "DropKeyword", "SwapEntry",
          "RepeatToken", "PadTail", "InsertKey", "MakeChain", "DecoyKeyword"}

D(ds) == [i \in 1..Len(ds) |-> 48 + ds[i]]
\* -1, 0, 1, 2^31-1, 2^32, 2^63-1, 10^18, 2^64-1 as digit strings
NumNeg1 == <<45, 49>>
Num0    == <<48>>
Num1    == <<49>>
Num2p31 == D(<<2, 1, 4, 7, 4, 8, 3, 6, 4, 7>>)
Num2p32 == D(<<4, 2, 9, 4, 9, 6, 7, 2, 9, 6>>)
Num2p63 == D(<<9, 2, 2, 3, 3, 7, 2, 0, 3, 6, 8, 5, 4, 7, 7, 5, 8, 0, 7>>)
Num1e18 == D(<<1, 0, 0, 0, 0, 0, 0, 0, 0, 0, 0, 0, 0, 0, 0, 0, 0, 0, 0>>)
Num2p64 == D(<<1, 8, 4, 4, 6, 7, 4, 4, 0, 7, 3, 7, 0, 9, 5, 5, 1, 6, 1, 5>>)
Numbers == {NumNeg1, Num0, Num1, Num2p31, Num2p32, Num2p63, Num1e18, Num2p64}

NumObj(v) == IF v[1] = 45 THEN OInt(TRUE, [i \in 1..(Len(v) - 1) |-> v[i + 1] - 48]) ELSE OInt(FALSE, [i \in 1..Len(v) |-> v[i] - 48])

HexValues == { <<>>, <<48, 48>>, <<70, 70, 70, 70>>, <<70, 70, 70, 70, 70, 70, 70, 70>>, <<68, 56, 48, 48>>, <<48, 48, 48, 48, 70, 70, 70, 70>>,
               <<70, 70>>, <<48>>, <<68, 56, 48, 48, 70, 70, 70, 70>> }

PdfToks == { KwObj, KwEndobj, KwStream, KwEndstream, KwXref, KwTrailer, KwStartxref, <<60, 60>>, <<62, 62>>, <<91>>, <<93>>, <<40>>, <<41>>,
             KwR, PctPctEOF }
ToksOf(sd) == IF sd.toks = <<>> THEN PdfToks ELSE {sd.toks[i] : i \in 1..Len(sd.toks)}

DeepSet == {3, 100, 101, 150}

Xor2k(b, k) == IF ((b \div (2 ^ k)) % 2) = 1 THEN b - 2 ^ k ELSE b + 2 ^ k
FlipChoices(b) == ({Xor2k(b, k) : k \in {0, 4, 7}} \cup {0, 255, 40, 41, 60, 62, 91, 93, 47, 37, 32, 10, 13, 48, 57, 92, 45, 82}) \ {b}

AllOcc(s, pat) == {i \in 1..(Len(s) - Len(pat) + 1) : SubSeq(s, i, i + Len(pat) - 1) = pat}
MaxOf(S) == CHOOSE x \in S : \A y \in S : y <= x
MinOf(S) == CHOOSE x \in S : \A y \in S : x <= y

Rep(unit, n) == Concat([i \in 1..n |-> unit])

\* The simulator picks one successor: parameters are drawn with RandomElement (bound through a singleton quantifier,
\* a LET definition would be re-evaluated at every use) instead of enumerating thousands of successors per step.
SomePositions(n) ==      \* a few positions in 1..n: a random one, now and then an end, a site edge
    {RandomElement(1..n), RandomElement({1, n, RandomElement(1..n)})}
    \cup (IF sites = <<>> THEN {} ELSE UNION {{sites[i].s, IF sites[i].e < n THEN sites[i].e + 1 ELSE n} : i \in {RandomElement(1..Len(sites))}})

SiteIdx(form) == {i \in 1..Len(sites) : sites[i].form = form}
SiteNames(form) == {sites[i].name : i \in SiteIdx(form)}
\* the names under which the file structure and the decoders read numbers (the other sites are numbers of the content)
Structural == { NameLength, NameSize, NameW, NameIndex, NamePrev, NameN, NameFirst, NameXRefStm, NmObjNum, NmObjHdr, NmXrefOff, NmXrefGen,
                NmXrefHdr, NmStartx, NameRoot,
                <<67, 111, 108, 117, 109, 110, 115>>, <<67, 111, 108, 111, 114, 115>>, <<80, 114, 101, 100, 105, 99, 116, 111, 114>>,
                <<66, 105, 116, 115, 80, 101, 114, 67, 111, 109, 112, 111, 110, 101, 110, 116>>,          \* Columns Colors Predictor BitsPerComponent
                <<87, 105, 100, 116, 104>>, <<72>>, <<72, 101, 105, 103, 104, 116>>, <<66, 80, 67>> }      \* Width H Height BPC (W is NameW)
\* half of the time one of the structural names present, otherwise any name present
PickName(names) == IF names \cap Structural # {} /\ RandomElement({TRUE, FALSE}) THEN RandomElement(names \cap Structural) ELSE RandomElement(names)

MEntry(k, nm, idx, v, a) == [k |-> k, nm |-> nm, idx |-> idx, v |-> v, a |-> a]

\* after a mutation
Done1(e) ==
    /\ mlog' = Append(mlog, e)
    /\ nmut' = nmut + 1
    /\ ph' = IF nmut + 1 >= MaxMut THEN "emit" ELSE "pick"
    /\ UNCHANGED <<pvars_rest, di, fin, ep, seed, lex, base, mk, round, judge>>

Applying(kind) == ph = "apply" /\ mk = kind

Noop(kind) == /\ out' = out /\ sites' = sites /\ adict' = adict /\ Done1(MEntry(kind, NmNone, 0, <<>>, "noop"))

-----------------------------------------------------------------------------
FlipByte ==
    /\ Applying("FlipByte")
    /\ IF out = <<>> THEN Noop("FlipByte")
       ELSE \E p \in SomePositions(Len(out)) : \E b \in {RandomElement(FlipChoices(out[p]))} :
              /\ out' = [out EXCEPT ![p] = b]
              /\ sites' = ShiftSites(sites, p, p, 1, 0)
              /\ adict' = adict
              /\ Done1(MEntry("FlipByte", NmNone, 0, <<b>>, ""))

Truncate ==
    /\ Applying("Truncate")
    /\ IF out = <<>> THEN Noop("Truncate")
       ELSE \E p \in {q - 1 : q \in SomePositions(Len(out))} :
              /\ out' = SubSeq(out, 1, p)
              /\ sites' = SelectSeq(sites, LAMBDA x : x.e <= p)
              /\ adict' = adict
              /\ Done1(MEntry("Truncate", NmNone, 0, <<>>, ""))

SpliceToken ==
    /\ Applying("SpliceToken")
    /\ \E p \in SomePositions(Len(out) + 1) : \E t \in {RandomElement(ToksOf(seed))} : \E pad \in BOOLEAN :
          LET new == IF pad THEN <<32>> \o t \o <<32>> ELSE t IN
          /\ out' = Splice(out, p, p - 1, new)
          /\ sites' = ShiftSites(sites, p, p - 1, Len(new), 0)
          /\ adict' = adict
          /\ Done1(MEntry("SpliceToken", NmNone, 0, t, ""))

\* a number at a named site becomes an extreme value: in the bytes, or in the stream dictionary
SetNumber ==
    /\ Applying("SetNumber")
    /\ LET names == SiteNames("dec")
           paths == DictPaths(adict)
       IN IF names = {} /\ paths = {} THEN Noop("SetNumber")
          ELSE \E inDict \in {paths # {} /\ (names = {} \/ RandomElement({TRUE, FALSE}))} :
               IF inDict THEN
                  \E p \in {RandomElement(paths)} : \E v \in {RandomElement(Numbers), RandomElement(Numbers)} :
                      LET key == DictPathKey(adict, p) IN
                      /\ adict' = SetDict(adict, p, NumObj(v))
                      /\ out' = out /\ sites' = sites
                      /\ Done1(MEntry("SetNumber", key.name, key.idx, v, "dict"))
               ELSE \E nm \in {PickName(names)} :
                  \E i \in {RandomElement({j \in SiteIdx("dec") : sites[j].name = nm})} : \E v \in {RandomElement(Numbers), RandomElement(Numbers)} :
                      /\ out' = Splice(out, sites[i].s, sites[i].e, v)
                      /\ sites' = ShiftSites(sites, sites[i].s, sites[i].e, Len(v), i)
                      /\ adict' = adict
                      /\ Done1(MEntry("SetNumber", sites[i].name, sites[i].idx, v, "bytes"))

\* hex digits of a hex string as nibbles, +1 / -1 on them (same number of digits, wrapping), and back to text
Nibs(bs) == LET h == SelectSeq(bs, IsHex) IN [i \in 1..Len(h) |-> HexVal(h[i])]
RECURSIVE IncN(_)
IncN(ns) == IF ns = <<>> THEN <<>> ELSE IF ns[Len(ns)] = 15 THEN IncN(SubSeq(ns, 1, Len(ns) - 1)) \o <<0>>
            ELSE SubSeq(ns, 1, Len(ns) - 1) \o <<ns[Len(ns)] + 1>>
RECURSIVE DecN(_)
DecN(ns) == IF ns = <<>> THEN <<>> ELSE IF ns[Len(ns)] = 0 THEN DecN(SubSeq(ns, 1, Len(ns) - 1)) \o <<15>>
            ELSE SubSeq(ns, 1, Len(ns) - 1) \o <<ns[Len(ns)] - 1>>
HexText(ns) == [i \in 1..Len(ns) |-> HexDigitU(ns[i])]

\* a hex string is replaced by a fixed extreme, or moved by one (range bounds: one code more or less than the target
\* array / the neighbouring range provides); the first two hex strings of a line (the bounds of a range) are preferred
SetHex ==
    /\ Applying("SetHex")
    /\ IF SiteIdx("hex") = {} THEN Noop("SetHex")
       ELSE LET bounds == {j \in SiteIdx("hex") : sites[j].idx \in {1, 2}} IN
            \E i \in {IF bounds # {} /\ RandomElement(1..3) <= 2 THEN RandomElement(bounds) ELSE RandomElement(SiteIdx("hex"))} :
            \E mode \in {RandomElement({"set", "inc", "dec"})} :
            \E v \in {IF mode = "set" \/ Nibs(SubSeq(out, sites[i].s, sites[i].e)) = <<>> THEN RandomElement(HexValues)
                       ELSE IF mode = "inc" THEN HexText(IncN(Nibs(SubSeq(out, sites[i].s, sites[i].e))))
                       ELSE HexText(DecN(Nibs(SubSeq(out, sites[i].s, sites[i].e))))} :
              /\ out' = Splice(out, sites[i].s, sites[i].e, v)
              /\ sites' = ShiftSites(sites, sites[i].s, sites[i].e, Len(v), i)
              /\ adict' = adict
              /\ Done1(MEntry("SetHex", sites[i].name, sites[i].idx, v, mode))

\* deep nesting: strings "((((", arrays, dictionaries - balanced or left open - in place of a number or anywhere
NestUnits(kind) ==
    IF kind = "str" THEN [o |-> <<40>>, c |-> <<41>>, inner |-> <<120>>]
    ELSE IF kind = "arr" THEN [o |-> <<91>>, c |-> <<93>>, inner |-> <<48>>]
    ELSE [o |-> <<60, 60, 47, 65>>, c |-> <<62, 62>>, inner |-> <<32, 48>>]          \* <</A<</A ... 0>>>>

NestDeep ==
    /\ Applying("NestDeep")
    /\ IF ~seed.txt \/ out = <<>> THEN Noop("NestDeep")
       ELSE \E kind \in {RandomElement({"str", "arr", "dict"})} : \E d \in {RandomElement(DeepSet)} : \E bal \in BOOLEAN : \E atSite \in BOOLEAN :
            \E i \in {IF atSite /\ SiteIdx("dec") # {} THEN RandomElement(SiteIdx("dec")) ELSE 0} :
            \E s \in {IF i # 0 THEN sites[i].s ELSE RandomElement(1..(Len(out) + 1))} :
              LET u == NestUnits(kind)
                  new == Rep(u.o, d) \o u.inner \o (IF bal THEN Rep(u.c, d) ELSE <<>>)
                  e == IF i # 0 THEN sites[i].e ELSE s - 1
                  nest == [form |-> "nest", s |-> s, e |-> s + Len(new) - 1, name |-> IF i # 0 THEN sites[i].name ELSE NmNone, idx |-> 0,
                           x |-> <<d * Len(u.o), IF bal THEN d * Len(u.c) ELSE 0, Len(u.o), Len(u.c)>>]
              IN /\ out' = Splice(out, s, e, new)
                 /\ sites' = Append(ShiftSites(sites, s, e, Len(new), 0), nest)
                 /\ adict' = adict
                 /\ Done1(MEntry("NestDeep", nest.name, d, <<>>, kind \o (IF bal THEN ".bal" ELSE ".open")))

\* number spelled in decimal at position q.. (q a digit): its digits
DigitsAt(bytes, q) ==
    LET S == {e \in q..Len(bytes) : \A i \in q..e : IsDigit(bytes[i])} IN SubSeq(bytes, q, MaxOf(S))
\* first position >= from holding a digit, 0 if none within 40 bytes
NextDigit(bytes, from) ==
    LET S == {i \in from..(IF from + 40 < Len(bytes) THEN from + 40 ELSE Len(bytes)) : IsDigit(bytes[i])} IN IF S = {} THEN 0 ELSE MinOf(S)
Pad10(ds) == [i \in 1..(10 - Len(ds)) |-> 48] \o ds
\* the object number of the "n g obj" header that precedes position p (digits), <<>> if none: the bytes before the
\* keyword are read backwards by a small automaton (white-space, generation, white-space, number)
ObjNumBefore(bytes, p) ==
    LET occ == {i \in AllOcc(bytes, KwObj) : i < p /\ i > 4 /\ ~IsRegular(bytes[i - 1])} IN
    IF occ = {} THEN <<>>
    ELSE LET k == MaxOf(occ)
             win == Reverse(SubSeq(bytes, IF k > 30 THEN k - 30 ELSE 1, k - 1))
             r == FoldLeft(LAMBDA acc, b :
                      IF acc.ph = 0 THEN (IF IsWS(b) THEN acc ELSE IF IsDigit(b) THEN [acc EXCEPT !.ph = 1] ELSE [acc EXCEPT !.ph = 9])
                      ELSE IF acc.ph = 1 THEN (IF IsDigit(b) THEN acc ELSE IF IsWS(b) THEN [acc EXCEPT !.ph = 2] ELSE [acc EXCEPT !.ph = 9])
                      ELSE IF acc.ph = 2 THEN (IF IsWS(b) THEN acc ELSE IF IsDigit(b) THEN [acc EXCEPT !.ph = 3, !.n = <<b>>] ELSE [acc EXCEPT !.ph = 9])
                      ELSE IF acc.ph = 3 THEN (IF IsDigit(b) THEN [acc EXCEPT !.n = <<b>> \o @] ELSE [acc EXCEPT !.ph = 4])
                      ELSE acc,
                    [ph |-> 0, n |-> <<>>], win)
         IN IF r.ph \in {3, 4} THEN r.n ELSE <<>>

CycleKinds == {"prev.self", "prev.two", "length.self", "length.mutual"}

\* cross-reference sections: V = offset written after the last startxref; the dictionary of the section at offset v
\* opens at the first "<<" at or after it (a table has none before its trailer).  Every intermediate value is bound by
\* a singleton quantifier so that it is computed once.
DictAt(hdr, v) == IF hdr + v > Len(out) THEN 0 ELSE FindFrom(out, <<60, 60>>, hdr + v)
DigVal(ds) == DigitsVal([i \in 1..Len(ds) |-> ds[i] - 48])

MakeCycle ==
    /\ Applying("MakeCycle")
    /\ \E kind \in {RandomElement(CycleKinds)} :
       \E hdr \in {FindFrom(out, PctPDF, 1)} :
       \E sxs \in {AllOcc(out, KwStartxref)} :
       \E sxd \in {IF sxs = {} THEN 0 ELSE NextDigit(out, MaxOf(sxs) + 9)} :
       \E vds \in {IF sxd = 0 THEN <<>> ELSE DigitsAt(out, sxd)} :
       \E usable \in {ep = "file" /\ hdr # 0 /\ vds # <<>> /\ Len(vds) <= 8} :
       \E v2 \in {IF usable THEN DigVal(vds) ELSE 0} :
       \E d2 \in {IF usable THEN DictAt(hdr, v2) ELSE 0} :
       \E newestPrev \in {{i \in SiteIdx("dec") : sites[i].name = NamePrev /\ sites[i].idx = 1 /\ sites[i].s > d2}} :
       \E lens \in {{i \in SiteIdx("dec") : sites[i].name = NameLength /\ sites[i].idx = 1}} :
       \E len2 \in {{sites[j].s : j \in {q \in SiteIdx("dec") : sites[q].name = NameLength /\ sites[q].idx = 2}}} :
       LET indirect(i) == \E q \in len2 : q > sites[i].e /\ q <= sites[i].e + 4 IN
          IF kind = "prev.self" /\ usable /\ d2 # 0 THEN
              \* the newest section names itself as its predecessor
              IF newestPrev # {} THEN
                  \E i \in {MinOf(newestPrev)} :
                  /\ out' = Splice(out, sites[i].s, sites[i].e, vds)
                  /\ sites' = ShiftSites(sites, sites[i].s, sites[i].e, Len(vds), i)
                  /\ adict' = adict /\ Done1(MEntry("MakeCycle", NamePrev, 1, vds, kind))
              ELSE LET new == <<47>> \o NamePrev \o <<32>> \o vds \o <<32>> IN
                  /\ out' = Splice(out, d2 + 2, d2 + 1, new)
                  /\ sites' = ShiftSites(sites, d2 + 2, d2 + 1, Len(new), 0)
                  /\ adict' = adict /\ Done1(MEntry("MakeCycle", NamePrev, 1, vds, kind))
          ELSE IF kind = "prev.two" /\ usable /\ d2 # 0 /\ newestPrev # {} THEN
              \* newest -> older (as written) and older -> newest (inserted; everything behind moves by 17 bytes)
              \E i \in {MinOf(newestPrev)} :
              \E pds \in {SubSeq(out, sites[i].s, sites[i].e)} :
              \E d1 \in {IF Len(pds) <= 8 /\ \A q \in 1..Len(pds) : IsDigit(pds[q]) THEN DictAt(hdr, DigVal(pds)) ELSE 0} :
              LET nv2 == D(NatDigits(v2 + 17))
                  new == <<47>> \o NamePrev \o <<32>> \o Pad10(nv2) \o <<32>>
                  o1 == Splice(out, sxd, sxd + Len(vds) - 1, nv2)                  \* startxref follows the move
              IN IF d1 = 0 \/ d1 >= d2 THEN Noop("MakeCycle")
                 ELSE /\ out' = Splice(o1, d1 + 2, d1 + 1, new)
                      /\ sites' = ShiftSites(ShiftSites(sites, sxd, sxd + Len(vds) - 1, Len(nv2), 0), d1 + 2, d1 + 1, Len(new), 0)
                      /\ adict' = adict /\ Done1(MEntry("MakeCycle", NamePrev, 1, nv2, kind))
          ELSE IF kind = "length.self" /\ ep = "file" /\ lens # {} THEN
              \* a stream whose Length is a reference to the stream itself
              \E i \in {RandomElement(lens)} :
              \E n \in {ObjNumBefore(out, sites[i].s)} :
              LET new == IF indirect(i) THEN n ELSE n \o <<32, 48, 32>> \o KwR
              IN IF n = <<>> THEN Noop("MakeCycle")
                 ELSE /\ out' = Splice(out, sites[i].s, sites[i].e, new)
                      /\ sites' = ShiftSites(sites, sites[i].s, sites[i].e, Len(new), 0)
                      /\ adict' = adict /\ Done1(MEntry("MakeCycle", NameLength, 1, n, kind))
          ELSE IF kind = "length.mutual" /\ ep = "file" /\ Cardinality(lens) >= 2 THEN
              \* two streams, each with the other as its Length (a stream whose own Length is indirect)
              \E i \in {RandomElement(lens)} : \E j0 \in {RandomElement(lens \ {i})} :
              \E a \in {IF i < j0 THEN i ELSE j0} : \E b \in {IF i < j0 THEN j0 ELSE i} :
              \E na \in {ObjNumBefore(out, sites[a].s)} : \E nb \in {ObjNumBefore(out, sites[b].s)} :
              LET ref(n, k) == IF indirect(k) THEN n ELSE n \o <<32, 48, 32>> \o KwR
                  o1 == Splice(out, sites[b].s, sites[b].e, ref(na, b))           \* the later one first: positions before it stay
              IN IF na = <<>> \/ nb = <<>> \/ na = nb THEN Noop("MakeCycle")
                 ELSE /\ out' = Splice(o1, sites[a].s, sites[a].e, ref(nb, a))
                      /\ sites' = ShiftSites(ShiftSites(sites, sites[b].s, sites[b].e, Len(ref(na, b)), 0), sites[a].s, sites[a].e, Len(ref(nb, a)), 0)
                      /\ adict' = adict /\ Done1(MEntry("MakeCycle", NameLength, 1, na \o <<32>> \o nb, kind))
          ELSE Noop("MakeCycle")

\* Repetition: n copies of a grammar token or marker line at a structural position (before the header, after an object,
\* before the cross-reference section, before startxref, after a %%EOF marker, at the very end), and padding of the
\* tail.  What lopdf does once per occurrence of a marker (search_substring recurses once per %%EOF) or once per byte of
\* the tail window must stay bounded however often the marker occurs.  TLC writes 3 copies and records the unit and the
\* count n; the harness writes n copies (as for NestDeep the multiplied input is not re-read by the StrictReader).
LF(t) == t \o <<10>>
MarkerToks == { LF(PctPctEOF), KwStartxref \o <<10, 48, 10>>, LF(KwXref), LF(KwTrailer), LF(KwEndobj), LF(KwStream), LF(KwObj),
                LF(PctPDF \o <<49, 46, 52>>), <<40>>, <<60, 60>>, <<49, 32, 48, 32, 82, 32>> }
RepeatCounts == {100, 10000, 300000}
PadCounts == {513, 5000, 1000000}
PadBytes == {32, 0, 10, 37}
ModelCopies == 3

StructPositions ==
    {1, Len(out) + 1}
    \cup (IF ep = "file"
          THEN {i + 7 : i \in {j \in AllOcc(out, KwEndobj) : j + 7 <= Len(out) + 1}} \cup AllOcc(out, KwXref) \cup AllOcc(out, KwStartxref)
               \cup {i + 5 : i \in AllOcc(out, PctPctEOF)}
          ELSE IF out = <<>> THEN {} ELSE {RandomElement(1..Len(out))})

RepSite(p, len, ulen, n) == [form |-> "rep", s |-> p, e |-> p + len - 1, name |-> NmNone, idx |-> 0, x |-> <<ulen, n>>]

RepeatToken ==
    /\ Applying("RepeatToken")
    /\ \E t \in {RandomElement(IF ep = "file" THEN MarkerToks ELSE ToksOf(seed))} : \E n \in {RandomElement(RepeatCounts)} :
       \E p \in {RandomElement(StructPositions)} :
          LET new == Rep(t, ModelCopies) IN
          /\ out' = Splice(out, p, p - 1, new)
          /\ sites' = Append(ShiftSites(sites, p, p - 1, Len(new), 0), RepSite(p, Len(new), Len(t), n))
          /\ adict' = adict
          /\ Done1(MEntry("RepeatToken", NmNone, n, t, ""))

PadTail ==
    /\ Applying("PadTail")
    /\ \E b \in {RandomElement(PadBytes)} : \E n \in {RandomElement(PadCounts)} :
          LET new == Rep(<<b>>, ModelCopies)
              p == Len(out) + 1
          IN /\ out' = out \o new
             /\ sites' = Append(sites, RepSite(p, Len(new), 1, n))
             /\ adict' = adict
             /\ Done1(MEntry("PadTail", NmNone, n, <<b>>, ""))

\* Key insertion: a dictionary gets a key it did not have.  The keys come from IOEnv.VOCAB - the names the library
\* itself looks up, harvested from its sources when the check runs - so a key that only a new code path consults is
\* offered as soon as that path exists; the values are adversarial (huge and negative integers, reals, a reference to
\* the object itself, arrays, wrong kinds).  In a stream dictionary given as a value the pair is appended (also inside a
\* nested dictionary such as DecodeParms); in bytes it is written behind a "<<" or in front of a ">>" (there the new
\* entry is the last one of its dictionary and wins over an earlier one).  The harness repeats the case with every
\* other key of the vocabulary in the place TLC wrote this one (site form "ins" / the pair index in the log).
Vocab == ndJsonDeserialize(IOEnv.VOCAB)
VocabNames == {Vocab[i].name : i \in 1..Len(Vocab)}
AV(k, b, o) == [k |-> k, b |-> b, o |-> o]
BigReal == [i \in 1..39 |-> 9]
AdvValues ==
    {AV("int", v, NumObj(v)) : v \in Numbers}
    \cup { AV("real", D(BigReal) \o <<46, 57>>, OReal(FALSE, BigReal, <<9>>)), AV("real", <<45, 48, 46, 53>>, OReal(TRUE, <<0>>, <<5>>)),
           AV("self", <<49, 32, 48, 32, 82>>, ORef(1, 0)),
           AV("arr", <<91>> \o Num2p32 \o <<32>> \o NumNeg1 \o <<93>>, OArr(<<NumObj(Num2p32), NumObj(NumNeg1)>>)),
           AV("arr", <<91, 93>>, OArr(<<>>)),
           AV("name", <<47, 88>>, OName(<<88>>)), AV("str", <<40, 120, 41>>, OStr(<<120>>)),
           AV("bool", KwTrue, OBool(TRUE)), AV("null", KwNull, ONull),
           AV("dict", <<60, 60, 62, 62>>, [k |-> "dict", v |-> <<>>]) }

InsertKey ==
    /\ Applying("InsertKey")
    /\ \E key \in {RandomElement(VocabNames)} : \E val \in {RandomElement(AdvValues)} :
       \E inDict \in {adict # <<>> /\ (~seed.txt \/ RandomElement({TRUE, FALSE}))} :
       IF inDict THEN
           LET nestedAt == {i \in 1..Len(adict) : adict[i][2].k = "dict"} IN
           \E at \in {IF nestedAt # {} /\ RandomElement({TRUE, FALSE}) THEN RandomElement(nestedAt) ELSE 0} :
              /\ adict' = IF at = 0 THEN Append(adict, <<key, val.o>>)
                          ELSE [adict EXCEPT ![at][2].v = Append(@, <<key, val.o>>)]
              /\ out' = out /\ sites' = sites
              /\ Done1(MEntry("InsertKey", key, IF at = 0 THEN Len(adict) + 1 ELSE at * 1000 + Len(adict[at][2].v) + 1, val.b, "dict." \o val.k))
       ELSE LET opens == {i + 2 : i \in AllOcc(out, <<60, 60>>)}
                closes == AllOcc(out, <<62, 62>>)
            IN IF ~seed.txt \/ opens \cup closes = {} THEN Noop("InsertKey")
               ELSE \E p \in {RandomElement(opens \cup closes)} :
                    \E self \in {IF val.k = "self" /\ ep = "file" THEN ObjNumBefore(out, p) ELSE <<>>} :
                    LET vb == IF self # <<>> THEN self \o <<32, 48, 32, 82>> ELSE val.b
                        new == <<32, 47>> \o key \o <<32>> \o vb \o <<32>>
                        site == [form |-> "ins", s |-> p + 2, e |-> p + 1 + Len(key), name |-> key, idx |-> 0, x |-> <<>>]
                    IN /\ out' = Splice(out, p, p - 1, new)
                       /\ sites' = Append(ShiftSites(sites, p, p - 1, Len(new), 0), site)
                       /\ adict' = adict
                       /\ Done1(MEntry("InsertKey", key, 0, vb, "bytes." \o val.k))

\* Chains: an incremental update is appended whose objects lead from one to the next through an indirection the loader
\* follows WHILE PARSING - a stream whose Length is a reference to the next stream (whose Length is a reference to the
\* next ...), the same through object-stream containers, n empty cross-reference sections chained by Prev, a page tree
\* n levels deep (Kids down, Parent up).  Cycles are what the `already_seen` sets stop; a chain has none, and what it
\* costs is depth.  TLC writes the update with ChainModelLen objects (offsets and all, so that the StrictReader reads
\* it); the worker rebuilds the same update with n objects, n around and far beyond every limit.
\* Amplification kinds: "nested" - stream objects written inside one another, all closed by one endstream (every Length
\* and every cross-reference entry exact; the data of object k contains objects k+1 ...: what is kept is quadratic in
\* what was read); "bigfirst" - one stream of 128 bytes per object of the update in front of n small objects (reading
\* an object must not cost time proportional to its offset).
ChainKinds == {"length", "length.objstm", "prev", "kids", "nested", "bigfirst"}
ChainLengths == {10, 100, 300, 1000, 3000, 10000, 100000}
ChainFirst == 70001
ChainModelLen == 3
Num(n) == D(NatDigits(n))
T_obj == <<32, 48, 32, 111, 98, 106, 10>>
T_endobj == <<10, 101, 110, 100, 111, 98, 106, 10>>
T_lenref == <<60, 60, 47, 76, 101, 110, 103, 116, 104, 32>>
T_R == <<32, 48, 32, 82>>
T_lenstream == <<62, 62, 10, 115, 116, 114, 101, 97, 109, 10, 97, 98, 99, 10, 101, 110, 100, 115, 116, 114, 101, 97, 109>>
T_len3 == <<60, 60, 47, 76, 101, 110, 103, 116, 104, 32, 51, 62, 62, 10, 115, 116, 114, 101, 97, 109, 10, 97, 98, 99, 10, 101, 110, 100, 115, 116, 114, 101, 97, 109>>
T_osref == <<60, 60, 47, 84, 121, 112, 101, 47, 79, 98, 106, 83, 116, 109, 47, 78, 32, 49, 47, 70, 105, 114, 115, 116, 32, 52, 47, 76, 101, 110, 103, 116, 104, 32>>
T_osstream == <<62, 62, 10, 115, 116, 114, 101, 97, 109, 10, 55, 32, 48, 32, 51, 10, 101, 110, 100, 115, 116, 114, 101, 97, 109>>
T_os5 == <<60, 60, 47, 84, 121, 112, 101, 47, 79, 98, 106, 83, 116, 109, 47, 78, 32, 49, 47, 70, 105, 114, 115, 116, 32, 52, 47, 76, 101, 110, 103, 116, 104, 32, 53, 62, 62, 10, 115, 116, 114, 101, 97, 109, 10, 55, 32, 48, 32, 51, 10, 101, 110, 100, 115, 116, 114, 101, 97, 109>>
T_catalog == <<60, 60, 47, 84, 121, 112, 101, 47, 67, 97, 116, 97, 108, 111, 103, 47, 80, 97, 103, 101, 115, 32>>
T_pages == <<60, 60, 47, 84, 121, 112, 101, 47, 80, 97, 103, 101, 115, 47, 67, 111, 117, 110, 116, 32, 49, 47, 75, 105, 100, 115, 91>>
T_parent == <<47, 80, 97, 114, 101, 110, 116, 32>>
T_page == <<60, 60, 47, 84, 121, 112, 101, 47, 80, 97, 103, 101, 47, 77, 101, 100, 105, 97, 66, 111, 120, 91, 48, 32, 48, 32, 57, 32, 57, 93, 47, 80, 97, 114, 101, 110, 116, 32>>
T_close == <<62, 62>>
T_xref == <<120, 114, 101, 102, 10>>
T_entry == <<32, 48, 48, 48, 48, 48, 32, 110, 32, 10>>
T_trailer == <<116, 114, 97, 105, 108, 101, 114, 10, 60, 60, 47, 83, 105, 122, 101, 32>>
T_prev == <<47, 80, 114, 101, 118, 32>>
T_root == <<47, 82, 111, 111, 116, 32>>
T_startxref == <<62, 62, 10, 115, 116, 97, 114, 116, 120, 114, 101, 102, 10>>
T_eof == <<10, 37, 37, 69, 79, 70, 10>>
T_nhead == <<32, 48, 32, 111, 98, 106, 10, 60, 60, 47, 76, 101, 110, 103, 116, 104, 32>>
T_nmid == <<62, 62, 115, 116, 114, 101, 97, 109, 10>>
T_ntail == <<120, 10, 101, 110, 100, 115, 116, 114, 101, 97, 109, 10, 101, 110, 100, 111, 98, 106, 10>>
T_empty == <<60, 60, 62, 62>>
T_emptysect == <<120, 114, 101, 102, 10, 48, 32, 48, 10>>

ChainBody(kind, i, m) ==      \* the i-th of m objects; object numbers ChainFirst .. ChainFirst + m - 1
    LET nxt == Num(ChainFirst + i) prv == Num(ChainFirst + i - 2) IN
    IF kind = "bigfirst" THEN (IF i = 1 THEN T_lenref \o Num(128 * m) \o T_close \o <<10>> \o KwStream \o <<10>> \o [q \in 1..(128 * m) |-> 120]
                                             \o <<10>> \o KwEndstream
                               ELSE T_empty)
    ELSE IF kind = "length" THEN (IF i = m THEN T_len3 ELSE T_lenref \o nxt \o T_R \o T_lenstream)
    ELSE IF kind = "length.objstm" THEN (IF i = m THEN T_os5 ELSE T_osref \o nxt \o T_R \o T_osstream)
    ELSE IF i = 1 THEN T_catalog \o nxt \o T_R \o T_close
    ELSE IF i = m THEN T_page \o prv \o T_R \o T_close
    ELSE T_pages \o nxt \o T_R \o <<93>> \o (IF i > 2 THEN T_parent \o prv \o T_R ELSE <<>>) \o T_close

\* the update, to stand at position start (1-based) of a file whose header is at position hdr and whose newest
\* cross-reference section is at offset prevsx (ASCII digits)
ChainUpdate(kind, m, start, hdr, prevsx) ==
    IF kind = "prev" THEN
        FoldLeft(LAMBDA acc, j :
                    LET x == start + Len(acc.b) - hdr
                        sect == T_emptysect \o T_trailer \o Num(ChainFirst) \o T_prev \o acc.p \o T_startxref \o Num(x) \o T_eof
                    IN [b |-> acc.b \o sect, p |-> Num(x)],
                 [b |-> <<>>, p |-> prevsx], [j \in 1..m |-> j]).b
    ELSE LET nh(i, len) == Num(ChainFirst + i - 1) \o T_nhead \o Pad10(Num(len)) \o T_nmid              \* header of nested object i
             suf[i \in 1..(m + 1)] == IF i > m THEN 0 ELSE Len(nh(i, 0)) + suf[i + 1]                   \* bytes of the headers i .. m
             objs == IF kind = "nested"
                     THEN FoldLeft(LAMBDA acc, i :
                            [b |-> acc.b \o nh(i, suf[i + 1] + 1) \o (IF i = m THEN T_ntail ELSE <<>>),
                             offs |-> Append(acc.offs, start + Len(acc.b) - hdr)],
                            [b |-> <<>>, offs |-> <<>>], [i \in 1..m |-> i])
                     ELSE FoldLeft(LAMBDA acc, i :
                        [b |-> acc.b \o Num(ChainFirst + i - 1) \o T_obj \o ChainBody(kind, i, m) \o T_endobj,
                         offs |-> Append(acc.offs, start + Len(acc.b) - hdr)],
                        [b |-> <<>>, offs |-> <<>>], [i \in 1..m |-> i])
             x == start + Len(objs.b) - hdr
         IN objs.b \o T_xref \o Num(ChainFirst) \o <<32>> \o Num(m) \o <<10>>
            \o Concat([i \in 1..m |-> Pad10(Num(objs.offs[i])) \o T_entry])
            \o T_trailer \o Num(ChainFirst + m) \o T_prev \o prevsx
            \o (IF kind = "kids" THEN T_root \o Num(ChainFirst) \o T_R ELSE <<>>)
            \o T_startxref \o Num(x) \o T_eof

MakeChain ==
    /\ Applying("MakeChain")
    /\ \E kind \in {RandomElement(ChainKinds)} : \E n \in {RandomElement(ChainLengths)} :
       \E hdr \in {FindFrom(out, PctPDF, 1)} :
       \E sxs \in {AllOcc(out, KwStartxref)} :
       \E sxd \in {IF sxs = {} THEN 0 ELSE NextDigit(out, MaxOf(sxs) + 9)} :
       \E vds \in {IF sxd = 0 THEN <<>> ELSE DigitsAt(out, sxd)} :
          IF ep # "file" \/ hdr = 0 \/ vds = <<>> \/ Len(vds) > 8 THEN Noop("MakeChain")
          ELSE LET new == <<10>> \o ChainUpdate(kind, ChainModelLen, Len(out) + 2, hdr, vds)
                   site == [form |-> "chain", s |-> Len(out) + 1, e |-> Len(out) + Len(new), name |-> NmNone, idx |-> 0,
                            x |-> <<n, hdr, DigVal(vds)>>]
               IN /\ out' = out \o new
                  /\ sites' = Append(sites, site)
                  /\ adict' = adict
                  /\ Done1(MEntry("MakeChain", NmNone, n, vds, kind))

\* Decoys: words that begin like a keyword ("endstreamX", "endobjs", "%%EOF1") inside the data of a stream - right behind
\* the stream keyword or right in front of endstream.  The direct Length of that stream is wrong from then on, and
\* whoever looks for the keyword instead has to step over the decoys.
DecoyWords == {KwEndstream, KwEndobj, KwStartxref, KwXref, KwTrailer, KwObj, PctPctEOF}
DataStart(i) ==      \* first data byte of the stream whose keyword starts at i
    LET q == i + 6 IN
    IF q + 1 <= Len(out) /\ out[q] = 13 /\ out[q + 1] = 10 THEN q + 2
    ELSE IF q <= Len(out) /\ out[q] \in {10, 13} THEN q + 1 ELSE q
DecoyKeyword ==
    /\ Applying("DecoyKeyword")
    /\ LET starts == {DataStart(i) : i \in {j \in AllOcc(out, KwStream) : ~(j > 3 /\ SubSeq(out, j - 3, j - 1) = <<101, 110, 100>>)}}
           ends == AllOcc(out, KwEndstream)
       IN IF starts \cup ends = {} THEN Noop("DecoyKeyword")
          ELSE \E p \in {RandomElement(starts \cup ends)} :
               \E wd \in {IF RandomElement({TRUE, FALSE}) THEN KwEndstream ELSE RandomElement(DecoyWords)} : \E k \in {RandomElement({1, 2, 3, 4})} :
               \E c \in {RandomElement({88, 115, 49})} :
                  LET new == Rep(wd \o <<c, 32>>, k) IN
                  /\ out' = Splice(out, p, p - 1, new)
                  /\ sites' = ShiftSites(sites, p, p - 1, Len(new), 0)
                  /\ adict' = adict
                  /\ Done1(MEntry("DecoyKeyword", NmNone, k, wd \o <<c>>, ""))

DropKeyword ==
    /\ Applying("DropKeyword")
    /\ LET cands == {t \in ToksOf(seed) : Len(t) >= 2 /\ AllOcc(out, t) # {}}
       IN IF cands = {} THEN Noop("DropKeyword")
          ELSE \E t \in {RandomElement(cands)} :
               \E p \in {RandomElement(AllOcc(out, t))} :
                  /\ out' = Splice(out, p, p + Len(t) - 1, <<>>)
                  /\ sites' = ShiftSites(sites, p, p + Len(t) - 1, 0, 0)
                  /\ adict' = adict
                  /\ Done1(MEntry("DropKeyword", NmNone, 0, t, ""))

\* two entries change places: two sites of the same kind, two integers of the dictionary, two rows of binary data
SwapEntry ==
    /\ Applying("SwapEntry")
    /\ LET names == {nm \in SiteNames("dec") : Cardinality({i \in SiteIdx("dec") : sites[i].name = nm}) >= 2}
           paths == DictPaths(adict)
           of(nm) == {i \in SiteIdx("dec") : sites[i].name = nm}
       IN IF names # {} THEN
              \E nm \in {PickName(names)} : \E i \in {RandomElement(of(nm))} : \E j \in {RandomElement(of(nm) \ {i})} :
                   LET a == IF sites[i].s < sites[j].s THEN i ELSE j
                       b == IF a = i THEN j ELSE i
                       ba == SubSeq(out, sites[a].s, sites[a].e)
                       bb == SubSeq(out, sites[b].s, sites[b].e)
                       o1 == Splice(out, sites[b].s, sites[b].e, ba)
                   IN /\ out' = Splice(o1, sites[a].s, sites[a].e, bb)
                      /\ sites' = ShiftSites(ShiftSites(sites, sites[b].s, sites[b].e, Len(ba), b), sites[a].s, sites[a].e, Len(bb), a)
                      /\ adict' = adict
                      /\ Done1(MEntry("SwapEntry", nm, 0, <<>>, "sites"))
          ELSE IF Cardinality(paths) >= 2 THEN
              \E p \in {RandomElement(paths)} : \E q \in {RandomElement(paths \ {p})} :
                   /\ adict' = SetDict(SetDict(adict, p, GetDict(adict, q)), q, GetDict(adict, p))
                   /\ out' = out /\ sites' = sites
                   /\ Done1(MEntry("SwapEntry", DictPathKey(adict, p).name, 0, <<>>, "dict"))
          ELSE IF Len(out) >= 8 THEN
              \E L \in {RandomElement({1, 2, 4})} : \E a \in {RandomElement(1..((Len(out) \div L) - 1))} :
              \E b \in {RandomElement((a + 1)..(Len(out) \div L))} :
                   LET ca == SubSeq(out, (a - 1) * L + 1, a * L)
                       cb == SubSeq(out, (b - 1) * L + 1, b * L)
                   IN /\ out' = Splice(Splice(out, (b - 1) * L + 1, b * L, ca), (a - 1) * L + 1, a * L, cb)
                      /\ sites' = <<>> /\ adict' = adict
                      /\ Done1(MEntry("SwapEntry", NmNone, L, <<>>, "rows"))
          ELSE Noop("SwapEntry")

-----------------------------------------------------------------------------
(* Totality of the StrictReader on adversarial bytes *)

\* RdFile must answer on every byte sequence.  (This check found FileStructure!CheckRevision leaving TLC's 31-bit
\* integers on XRef streams with wide fields / huge Index counts; Bytes!BEVal now saturates and CheckRevision bounds
\* W and Index, so no wrapper is needed any more.)
RdFileT(bytes) == RdFile(bytes)

\* what matters of a strict reading for the "semantically neutral" note
RdSummary(bytes) ==
    LET r == RdFileT(bytes) IN
    IF r.ok THEN [ok |-> TRUE, err |-> "", version |-> r.version, trailer |-> r.trailer, view |-> r.view, use |-> <<>>, probes |-> <<>>]
    ELSE [ok |-> FALSE, err |-> r.err, version |-> <<>>, trailer |-> EmptyMap, view |-> EmptyMap, use |-> <<>>, probes |-> <<>>]

NoRd == [ok |-> FALSE, err |-> "n/a", version |-> <<>>, trailer |-> EmptyMap, view |-> EmptyMap, use |-> <<>>, probes |-> <<>>]

-----------------------------------------------------------------------------
(* Parse -> Use.  A value that was parsed from adversarial bytes is then used through the public API, under the same   *)
(* guard.  UseKinds names the calls the worker makes when the parse returned a value; for a ToUnicode CMap the texts    *)
(* to decode are derived from the mutated program itself: every hex string of 1-4 bytes is a code (range bounds are),   *)
(* and it is probed as it stands, one below, one above (first / last / one-past of every range), one byte longer and    *)
(* one byte shorter (every code length).                                                                                 *)
UseKinds(e) ==
    IF e = "file" THEN <<"streams.decompress", "pages.content", "pages.decode", "fonts.decode", "extract_text">>
    ELSE IF e = "cmap" THEN <<"decode.generic", "decode.boundaries">>
    ELSE IF e = "content" THEN <<"encode">>
    ELSE IF e = "filter" THEN <<"plain_content">>
    ELSE <<>>

PairUp(ns) == [i \in 1..(Len(ns) \div 2) |-> ns[2 * i - 1] * 16 + ns[2 * i]]
CodeProbes(ns) ==      \* ns: an even number (2..8) of nibbles
    LET c == PairUp(ns)
    IN <<c, PairUp(IncN(ns)), PairUp(DecN(ns))>>
       \o (IF Len(c) < 4 THEN <<<<0>> \o c>> ELSE <<>>) \o (IF Len(c) > 1 THEN <<Tail(c)>> ELSE <<>>)
BoundaryProbes(bytes) ==
    LET hs == SelectSeq(ScanSites(bytes), LAMBDA x : x.form = "hex")
        codes == SelectSeq([i \in 1..Len(hs) |-> Nibs(SubSeq(bytes, hs[i].s, hs[i].e))], LAMBDA ns : Len(ns) \in {2, 4, 6, 8})
    IN Concat([i \in 1..(IF Len(codes) > 60 THEN 60 ELSE Len(codes)) |-> CodeProbes(codes[i])])
UseProbes(e, bytes, txt) == IF e = "cmap" /\ txt THEN BoundaryProbes(bytes) ELSE <<>>

JudgeOf(e, bytes, d, txt) ==
    IF e = "file" THEN RdSummary(bytes)
    ELSE IF e = "content" THEN LET r == Read(bytes, TRUE) IN [NoRd EXCEPT !.ok = r.ok, !.err = r.err]
    ELSE IF e = "objstm" /\ txt THEN LET r == ParseObjStm(OStream(PairsToMap(d), bytes), FALSE) IN [NoRd EXCEPT !.ok = r.ok, !.err = ""]
    ELSE NoRd

-----------------------------------------------------------------------------
(* The state machine *)

NoSeed == [tag |-> "producer", txt |-> TRUE, toks |-> <<>>]
NoBase == [bytes |-> <<>>, sites |-> <<>>, dict |-> <<>>, rd |-> NoRd]

AInit ==
    /\ IF Mode = "producer"
       THEN /\ Init
            /\ ph = "produce" /\ ep = "file" /\ seed = NoSeed /\ adict = <<>>
       ELSE /\ \E i \in 1..Len(Seeds) :
                  /\ di = i
                  /\ out = Seeds[i].bytes
                  /\ ep = Seeds[i].ep
                  /\ seed = [tag |-> Seeds[i].tag, txt |-> Seeds[i].txt, toks |-> Seeds[i].toks]
                  /\ adict = Seeds[i].dict
            /\ todo = <<>> /\ offs = EmptyMap /\ outer = <<>> /\ moffs = <<>> /\ fin = FALSE
            /\ plan = [doc |-> [revs |-> <<>>], k |-> [junk |-> 0], xrefoff |-> 0]
            /\ ph = "produce"
    /\ sites = <<>> /\ lex = [name |-> NmNone, idx |-> 0, c |-> FALSE]
    /\ base = NoBase /\ mk = "" /\ nmut = 0 /\ round = 0 /\ mlog = <<>> /\ judge = NoRd

\* one Producer step, the site log kept in parallel
\* (Gen_File!Next: with work left on the stack it is a Producer step - FileNext or the choice of the knobs)
AProduce ==
    /\ ph = "produce" /\ todo # <<>>
    /\ Next
    /\ sites' = IF lex.c THEN sites ELSE sites \o StepSites(Top1, out, out', lex)
    /\ lex' = StepLex(Top1, lex)
    /\ UNCHANGED <<ph, ep, seed, adict, base, mk, nmut, round, mlog, judge>>

\* the legal input is complete (Gen_File!Finish); real inputs get their sites from the lexical scan
AFinish ==
    /\ ph = "produce"
    /\ Finish
    /\ LET ss == IF Mode = "producer" THEN sites ELSE IF seed.txt THEN ScanSites(out) ELSE <<>> IN
       /\ sites' = ss
       /\ base' = [bytes |-> out, sites |-> ss, dict |-> adict, rd |-> JudgeOf(ep, out, adict, seed.txt)]
    /\ ph' = "emit"                                      \* round 0: the legal input itself
    /\ UNCHANGED <<ep, seed, lex, adict, mk, nmut, round, mlog, judge>>

\* a kind is offered only where it can do something (the actions keep a no-op branch for the remaining corner cases)
Applicable(k) ==
    IF k \in {"FlipByte", "Truncate"} THEN out # <<>>
    ELSE IF k = "SetNumber" THEN SiteIdx("dec") # {} \/ DictPaths(adict) # {}
    ELSE IF k = "SetHex" THEN SiteIdx("hex") # {}
    ELSE IF k = "NestDeep" THEN seed.txt /\ out # <<>>
    ELSE IF k = "MakeCycle" THEN ep = "file"
    ELSE IF k = "DropKeyword" THEN \E t \in ToksOf(seed) : Len(t) >= 2 /\ AllOcc(out, t) # {}
    ELSE IF k = "SwapEntry" THEN Len(out) >= 8 \/ Cardinality(DictPaths(adict)) >= 2
    ELSE IF k = "InsertKey" THEN adict # <<>> \/ (seed.txt /\ AllOcc(out, <<60, 60>>) # {})
    ELSE IF k = "MakeChain" THEN ep = "file" /\ AllOcc(out, KwStartxref) # {}
    ELSE IF k = "DecoyKeyword" THEN ep = "file" /\ AllOcc(out, KwEndstream) # {}
    ELSE TRUE

\* structure-aware kinds are drawn more often than the byte-level ones (those also come in bulk from the harness)
Weight(k) == IF k = "SetNumber" THEN 4 ELSE IF k = "SetHex" THEN (IF ep = "cmap" THEN 6 ELSE 2) ELSE IF k \in {"InsertKey", "MakeChain"} THEN 3
             ELSE IF k \in {"NestDeep", "MakeCycle", "RepeatToken", "PadTail", "DecoyKeyword", "stop"} THEN 2 ELSE 1
Lottery(S) == UNION {{<<k, i>> : i \in 1..Weight(k)} : k \in S}

Pick ==
    /\ ph = "pick"
    /\ \E t \in {RandomElement(Lottery({x \in Kinds : Applicable(x)} \cup (IF nmut >= 1 THEN {"stop"} ELSE {})))} :
          /\ mk' = t[1]
          /\ ph' = IF t[1] = "stop" THEN "emit" ELSE "apply"
    /\ UNCHANGED <<pvars, di, fin, ep, seed, sites, lex, adict, base, nmut, round, mlog, judge>>

EmitCase ==
    /\ ph = "emit"
    /\ judge' = IF round = 0 THEN base.rd ELSE JudgeOf(ep, out, adict, seed.txt)
    /\ ph' = "use"
    /\ UNCHANGED <<pvars, di, fin, ep, seed, sites, lex, adict, base, mk, nmut, round, mlog>>

\* second phase: what is done with the value the entry point returns
UseStep ==
    /\ ph = "use"
    /\ judge' = [judge EXCEPT !.use = UseKinds(ep), !.probes = UseProbes(ep, out, seed.txt)]
    /\ ph' = "emitted"
    /\ UNCHANGED <<pvars, di, fin, ep, seed, sites, lex, adict, base, mk, nmut, round, mlog>>

Reset ==
    /\ ph = "emitted"
    /\ IF round < Rounds
       THEN /\ out' = base.bytes /\ sites' = base.sites /\ adict' = base.dict
            /\ nmut' = 0 /\ mlog' = <<>> /\ round' = round + 1 /\ ph' = "pick"
       ELSE /\ ph' = "end" /\ UNCHANGED <<out, sites, adict, nmut, mlog, round>>
    /\ UNCHANGED <<pvars_rest, di, fin, ep, seed, lex, base, mk, judge>>

ANext == AProduce \/ AFinish \/ Pick \/ FlipByte \/ Truncate \/ SpliceToken \/ SetNumber \/ SetHex \/ NestDeep
         \/ MakeCycle \/ DropKeyword \/ SwapEntry \/ RepeatToken \/ PadTail \/ InsertKey \/ MakeChain \/ DecoyKeyword \/ EmitCase \/ UseStep \/ Reset

ASpec == AInit /\ [][ANext]_allvars

-----------------------------------------------------------------------------
(* Invariants *)

\* the StrictReader is total: Emit evaluated it (a TLC evaluation error would have stopped the run) and it answered
Total == ph = "emitted" => judge.ok \in BOOLEAN

\* the Producer's file is what the StrictReader reads (the site log does not disturb production)
LegalIsLegal == (ph = "emitted" /\ round = 0 /\ Mode = "producer") => judge.ok

\* every site of the log lies inside the bytes and, for numbers, covers digits (and a sign)
SitesOk ==
    ph \in {"pick", "emit"} =>
        \A i \in 1..Len(sites) :
            /\ sites[i].s >= 1 /\ sites[i].e <= Len(out) /\ sites[i].s <= sites[i].e + 1
            /\ (sites[i].form = "dec" /\ nmut = 0 => \A q \in sites[i].s..sites[i].e : IsDigit(out[q]) \/ out[q] \in {43, 45})

Cks(bytes) == FoldLeft(LAMBDA acc, b : ((acc * 31) + b) % 1000003, 7, bytes)

Neutral == round > 0 /\ ep = "file" /\ judge.ok /\ base.rd.ok /\ judge.view = base.rd.view /\ judge.trailer = base.rd.trailer
           /\ judge.version = base.rd.version

AEmitInv ==
    ph = "emitted" =>
        PrintT(<<"REPLAY", ToJson([ep |-> ep, tag |-> seed.tag, src |-> di, round |-> round, bytes |-> out, dict |-> adict, muts |-> mlog,
                                    rdok |-> judge.ok, rderr |-> judge.err, neutral |-> Neutral,
                                    bck |-> <<Len(base.bytes), Cks(base.bytes)>>,
                                    nests |-> [i \in 1..Len(SelectSeq(sites, LAMBDA x : x.form = "nest")) |->
                                                 LET x == SelectSeq(sites, LAMBDA y : y.form = "nest")[i] IN <<x.s, x.e>> \o x.x],
                                    use |-> judge.use, probes |-> judge.probes,
                                    ins |-> [i \in 1..Len(SelectSeq(sites, LAMBDA x : x.form = "ins")) |->
                                                 LET x == SelectSeq(sites, LAMBDA y : y.form = "ins")[i] IN <<x.s, x.e>>],
                                    chains |-> [i \in 1..Len(SelectSeq(sites, LAMBDA x : x.form = "chain")) |->
                                                 LET x == SelectSeq(sites, LAMBDA y : y.form = "chain")[i] IN <<x.s, x.e>> \o x.x],
                                    reps |-> [i \in 1..Len(SelectSeq(sites, LAMBDA x : x.form = "rep")) |->
                                                 LET x == SelectSeq(sites, LAMBDA y : y.form = "rep")[i] IN <<x.s, x.e>> \o x.x]])>>)
=============================================================================
