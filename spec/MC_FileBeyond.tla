--------------------------- MODULE MC_FileBeyond ---------------------------
(* The specification's own consistency proof for the two file features beyond C02's statement - free       *)
(* entries (objects deleted by an update, numbers used again with the next generation) and hybrid-reference *)
(* sections (table + XRefStm) - EXHAUSTIVELY over the structural knobs of the Producer:                      *)
(*   cross-reference style x object order x which revisions are hybrid x where object streams and the        *)
(*   XRefStm stream are listed x free marks for hidden numbers or none x free list chained or not x W        *)
(*   layout x filter on the structural streams                                                               *)
(* for a handful of small histories written out below.  The lexical freedoms (separators, spellings, line    *)
(* ends) are pinned to one canonical choice - the configuration replaces the choice sets by singletons and   *)
(* the action constraint Canon keeps the shortest separator - they are covered by the simulation runs of      *)
(* Gen_File_{free,hybrid,beyond}.cfg and by MC_Syntax.  Invariants (from Gen_File):                           *)
(*   RoundTrip    the StrictReader reads back the history's View, the deleted numbers with their next        *)
(*                generation, the free list, the hybrid sections and the hidden objects                       *)
(*   ImplRefines  the loader-shaped section-by-section lookup, all deviations off, defines the same objects   *)
(* and the witnesses below (must be VIOLATED: the configuration does reach such files).                       *)
EXTENDS Gen_File

\* TLC orders record fields by first mention while parsing (root module first): the kind field `k` must come
\* before the payload fields so that object values of different kinds are unequal without their payloads
\* ever being compared (a function-valued `v` against a sequence-valued one is a TLC evaluation error).
KindFirst_MC_FileBeyond(o) == <<o.k, o.neg, o.v, o.w>>

CONSTANT Which      \* set of indices into MCDocs this configuration lays out

\* JSON-shaped values (what Gen_File!FileDoc reads): atoms are the values themselves
JArr(s) == [k |-> "arr", v |-> s]
JDict(pairs) == [k |-> "dict", v |-> pairs]
JStream(pairs, body) == [k |-> "stream", v |-> pairs, w |-> body]
KA == <<65>>  KB == <<66>>
Ver == <<49, 46, 53>>
BinMark == <<226, 227, 207, 211>>
Rev(objects, comp, free, root) == [objects |-> objects, comp |-> comp, free |-> free, trailer |-> <<<<NameRoot, ORef(root, 0)>>>>]
Grp(cnum, members) == [cnum |-> cnum, members |-> members]

MCDocs == <<
  \* 1: three revisions.  1: plain 1, 2 (stream); object stream 5 = {3, 4}.  2: 1 replaced, object stream 7 = {3 (again), 6},
  \*    2 deleted.  3: 2 used again (generation 1), 4 deleted, object stream 9 = {8}
  [version |-> Ver, binmark |-> BinMark, revs |-> <<
     Rev(<< <<1, 0, JDict(<< <<KA, ORef(3, 0)>> >>)>>, <<2, 0, JStream(<< <<KB, ONull>> >>, <<120, 121>>)>> >>,
         << Grp(5, << <<3, OName(KA)>>, <<4, JArr(<<NatObj(7), ORef(2, 0)>>)>> >>) >>, <<>>, 1),
     Rev(<< <<1, 0, JDict(<< <<KA, ORef(6, 0)>> >>)>> >>,
         << Grp(7, << <<3, OName(KB)>>, <<6, OBool(TRUE)>> >>) >>, << <<2, 1>> >>, 1),
     Rev(<< <<2, 1, JArr(<<>>)>> >>,
         << Grp(9, << <<8, ONull>> >>) >>, << <<4, 1>> >>, 1) >>],
  \* 2: the update moves the directly stored object 2 into an object stream and deletes the compressed object 3;
  \*    the next update deletes 2 and defines nothing
  [version |-> Ver, binmark |-> BinMark, revs |-> <<
     Rev(<< <<1, 0, JDict(<<>>)>>, <<2, 0, OName(KA)>> >>, << Grp(4, << <<3, NatObj(1)>> >>) >>, <<>>, 1),
     Rev(<<>>, << Grp(5, << <<2, OName(KB)>> >>) >>, << <<3, 1>> >>, 1),
     Rev(<<>>, <<>>, << <<2, 1>> >>, 1) >>],
  \* 3: one revision, every object lives in an object stream (with XRefStm: a table without any in-use entry)
  [version |-> Ver, binmark |-> BinMark, revs |-> <<
     Rev(<<>>, << Grp(3, << <<1, JDict(<< <<KA, ORef(2, 0)>> >>)>>, <<2, OBool(FALSE)>> >>) >>, <<>>, 1) >>],
  \* 4: a stream whose Length is a compressed integer; the update replaces the stream and adds a second object stream
  [version |-> Ver, binmark |-> BinMark, revs |-> <<
     Rev(<< <<1, 0, JStream(<< <<NameLength, ORef(2, 0)>> >>, <<97, 98, 99>>)>> >>, << Grp(3, << <<2, NatObj(3)>> >>) >>, <<>>, 1),
     Rev(<< <<1, 0, JStream(<<>>, <<100>>)>>, <<6, 3, ONull>> >>, << Grp(5, << <<4, OName(KA)>> >>) >>, <<>>, 1) >>],
  \* 5: delete, use again, delete again, use again: generations 0 -> 1 -> 2 over four revisions
  [version |-> Ver, binmark |-> BinMark, revs |-> <<
     Rev(<< <<1, 0, JDict(<<>>)>>, <<2, 0, NatObj(0)>> >>, <<>>, <<>>, 1),
     Rev(<< <<3, 0, ONull>> >>, <<>>, << <<2, 1>> >>, 1),
     Rev(<< <<2, 1, NatObj(1)>> >>, <<>>, << <<3, 1>> >>, 1),
     Rev(<< <<3, 1, OBool(TRUE)>> >>, <<>>, << <<2, 2>> >>, 1) >>]
>>

MCInit == Init /\ di \in Which

\* The lexical freedoms are pinned to one choice each: the configuration replaces the choice sets of Spellings /
\* SyntaxProducer by the singletons below, and Canon leaves of the separators only the shortest one; it also fixes the
\* knobs that have nothing to do with the two features.
OneEOL == {<<10>>}
OneEntryEOL == {<<32, 10>>}
OneHdrSep == {<<32>>}
OneMidSep == {<<32>>}
OneEmpty == {<<>>}
OnlyFalse == {FALSE}
OnlyPlain == {"plain"}
OnlyMin == {"min"}
NoStyle == {}
Sep1(need) == IF need THEN <<10>> ELSE <<>>
Canon ==
    IF todo = <<>> THEN TRUE
    ELSE IF Top1.w = "plan" THEN
         /\ (Top1.next = "w" => plan'.k.w \in {<<1, 2, 1>>, <<1, 4, 2>>} /\ ~plan'.k.selfgap)
         /\ (Top1.next = "misc" => plan'.k.junk = 0 /\ ~plan'.k.bin /\ plan'.k.slack = 0)
         /\ (Top1.next = "filter" => plan'.k.sfilter \in {"none", "flate"})
         /\ (Top1.next = "fparams" => plan'.k.zblock = 7)
    ELSE IF Top1.w = "tok" THEN out' = out \o Sep1(NeedSep(out, Top1.b)) \o Top1.b
    ELSE IF Top1.w = "objhdr" THEN out' = out \o Sep1(NeedSep(out, <<48>>)) \o AsciiDigits(Top1.num)
    ELSE IF Top1.w = "streamdata" THEN IsPrefixOf(out \o Sep1(NeedSep(out, KwStream)) \o KwStream, out')
    ELSE IF Top1.w = "cmember" THEN out' = out \o Sep1(out # <<>>)
    ELSE TRUE

MCSpec == MCInit /\ [][Next]_vars

-----------------------------------------------------------------------------
(* Witnesses: each must be violated, i.e. the configuration does produce such a file *)
NoHybridFile == ~(Done /\ K.hybrid # {})
NoHybridWithoutPrev == ~(Done /\ 1 \in K.hybrid /\ Len(Doc.revs) = 1)
NoOlderHybrid == ~(Done /\ \E r \in K.hybrid : r < Len(Doc.revs))
NoChainedFreeList == ~(Done /\ K.flink = "chain" /\ Deleted(Doc.revs) # {})
NoReuse == ~(Done /\ \E n \in DOMAIN View(Doc.revs) : \E r \in 1..Len(Doc.revs) : n \in FreeNumsOf(Doc.revs[r]))
NoHiddenDeleted == ~(Done /\ \E r \in K.hybrid : HiddenOfRev(r) \cap Deleted(Doc.revs) # {})
NoFreeInStream == ~(Done /\ UseComp(K) /\ Deleted(Doc.revs) # {})
=============================================================================
