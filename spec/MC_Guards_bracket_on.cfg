SPECIFICATION Spec
CONSTANTS
  Model = "bracket"
  N = 7
  MaxB = 2
  GuardOn = TRUE
INVARIANTS Variant Refines
PROPERTIES Terminates
CHECK_DEADLOCK FALSE
