SPECIFICATION Spec
CONSTANTS
  Variant = "asis"
  MaxIntr = 2
  KeepHist = TRUE
  MaxCalls = 3
  MinBuf = 0
  MaxBuf = 3
  RawChoices = {FALSE, TRUE}
  DevIgnoredWrite = FALSE
  DevMutatesDoc = FALSE
  Emit = TRUE
INVARIANTS TypeOK Accounting Prefix ChunkFree ErrSurfaces NoSpurious Later Refines CounterInv AbstractionOK EmitInv
PROPERTIES DocUnchanged Accounted Retry RetrySink
CHECK_DEADLOCK FALSE
