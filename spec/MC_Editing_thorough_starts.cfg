SPECIFICATION Spec
CONSTANTS
  Devs <- DevTwo
  Ops <- AllOps
  ByteStrings <- BytesQuick
  NumSeqs <- NumsThorough
  NewObjs <- MCNewObjs
  MaxDepth = 2
  Starts <- StartsThorough
  Allowed = {"content.sharedStream", "resources.nameCollision"}
  Emit = TRUE
  EmitMod = 2000
  EmitModV = 200
VIEW View
INVARIANTS Refines StartOk EmitViolations
CHECK_DEADLOCK FALSE
