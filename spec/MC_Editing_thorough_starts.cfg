SPECIFICATION Spec
CONSTANTS
  Devs <- DevCode
  Ops <- AllOps
  ByteStrings <- BytesQuick
  NumSeqs <- NumsThorough
  NewObjs <- MCNewObjs
  InheritBound <- MCInheritBound
  MaxDepth = 2
  Starts <- StartsThorough
  Allowed = {"resources.shadow.incremental"}
  Emit = TRUE
  EmitMod = 2000
  EmitModV = 200
VIEW View
INVARIANTS Refines StartOk EmitViolations
CHECK_DEADLOCK FALSE
