SPECIFICATION Spec
CONSTANTS
  Model = "lendepth"
  N = 4
  MaxB = 2
  GuardOn = FALSE
INVARIANTS Variant Refines
CHECK_DEADLOCK FALSE
