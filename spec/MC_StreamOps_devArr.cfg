SPECIFICATION Spec
CONSTANTS
  MaxSteps = 2
  DevAvg = FALSE
  DevArr = TRUE
  DevStale = FALSE
  DevEmpty = FALSE
  Disturbs = FALSE
  DevRows = FALSE
  DevInd = FALSE
  DevDocInd = FALSE
INVARIANTS LengthInv StepOKModKnown
CHECK_DEADLOCK FALSE
