SPECIFICATION Spec
CONSTANTS
  MaxSteps = 3
  DevAvg = FALSE
  DevArr = FALSE
  DevStale = FALSE
  DevEmpty = FALSE
  Disturbs = TRUE
  DevRows = FALSE
  DevInd = FALSE
  DevDocInd = FALSE
INVARIANTS LengthInv StepOK HistoryFree ActionPrint
CHECK_DEADLOCK FALSE
