------------------------------ MODULE SaveSink ------------------------------
(***************************************************************************)
(* Saving through a faulty / chunking sink (property C19).                   *)
(*                                                                          *)
(* This module holds the constant-level operators of both layers            *)
(* (DESIGN 2.9); the state machine Writer || Sink that uses them is          *)
(* SaveSinkSys.tla, the trace validator is Trace_SaveSink.tla.               *)
(*                                                                          *)
(*  - declarative layer: what C19 demands of ONE observed save, stated on    *)
(*    what an outside observer of the sink can see (Obs).  Only this layer   *)
(*    produces verdicts other than ok.                                       *)
(*  - impl-shaped layer: std::io::Write::write_all as its documented loop    *)
(*    over inner.write (retry on Interrupted, Ok(0) => WriteZero error, any  *)
(*    other error aborts), driven by the sequence W of buffer lengths the    *)
(*    writer hands to write_all (lopdf's save_internal: one write_all per    *)
(*    write site, through CountingWrite).  LStep is that loop projected to   *)
(*    lengths: it is what the sink's log of write(len) -> result calls must   *)
(*    look like.  SaveSinkSys checks (AbstractionOK) that LStep is the exact  *)
(*    length projection of the byte-level state machine.                     *)
(*                                                                          *)
(* Sink responses are integers (also the wire format of the harness log):    *)
(*     r > 0   Ok(r)   r bytes of the presented buffer were accepted          *)
(*     r = 0   Ok(0)   zero-length write                                      *)
(*     r = -1  Err(ErrorKind::Interrupted)   transient, must be retried       *)
(*     r = -2  Err(other)                    hard error                       *)
(***************************************************************************)
EXTENDS Integers, Sequences, FiniteSets, SequencesExt

RIntr == -1
RErr  == -2
ROk0  == 0

IsAccept(r)  == r > 0
IsFailure(r) == r = ROk0 \/ r = RErr

Sum(seq) == FoldLeft(LAMBDA a, x : a + x, 0, seq)

\* concatenation of a sequence of buffers
Flatten(bufs) == FoldLeft(LAMBDA a, b : a \o b, <<>>, bufs)

\* PrefixSums(W)[k] = W[1] + ... + W[k-1]   (k in 1..Len(W)+1): the offset at which buffer k starts
PrefixSums(W) == FoldLeft(LAMBDA acc, x : Append(acc, acc[Len(acc)] + x), <<0>>, W)

\* the value CountingWrite.bytes_written must have when write site k is reached
OffsetsOf(bufs) == LET P == PrefixSums([k \in 1..Len(bufs) |-> Len(bufs[k])])
                   IN  [k \in 1..Len(bufs) |-> P[k]]

-----------------------------------------------------------------------------
(* Declarative layer.                                                       *)
(* An observation o of one save:                                            *)
(*   o.failed    the sink answered Ok(0) or Err(other) to at least one call  *)
(*   o.nintr     number of Interrupted answers                               *)
(*   o.result    "ok" | "err" | "panic"   what save_to returned              *)
(*   o.dlen      number of bytes the sink accepted                           *)
(*   o.isprefix  the accepted bytes are a prefix of the complete output      *)
(*   o.n         length of the complete output (healthy sink)                *)
(* and of the later save of the same document to a healthy sink:             *)
(*   lt.res  "ok"|"err"|"panic"|"none",  lt.load "ok"|"err"|"panic"|"none",  *)
(*   lt.same  the later file loads to the same content,                      *)
(*   lt.valid its cross-reference entries point at their objects,            *)
(*   lt.strict the later file loads to the SAME Document as the save of a     *)
(*            fresh clone does (object table, max_id and trailer compared      *)
(*            with nothing left out): the failed save left no trace            *)
(***************************************************************************)
NoPanicObs(o)     == o.result # "panic"
ErrSurfacesObs(o) == o.failed => o.result = "err"
\* chunking and Interrupted alone are invisible: the save succeeds ...
NoSpuriousObs(o)  == ~o.failed => o.result = "ok"
\* ... with exactly the bytes of the complete output (hence the same xref offsets)
ChunkFreeObs(o)   == o.result = "ok" => (o.isprefix /\ o.dlen = o.n)
PrefixObs(o)      == o.isprefix /\ o.dlen <= o.n
LaterObs(o, lt)   == o.result = "err" => (lt.res = "ok" /\ lt.load = "ok" /\ lt.valid /\ lt.same /\ lt.strict)

\* "ok" or the name of the first clause that fails
Verdict(o, lt) ==
    IF ~NoPanicObs(o) THEN "panic"
    ELSE IF ~ErrSurfacesObs(o) THEN "err-not-surfaced"
    ELSE IF ~NoSpuriousObs(o) THEN (IF o.nintr > 0 THEN "interrupted-not-retried" ELSE "chunking-error")
    ELSE IF ~ChunkFreeObs(o) THEN "bytes-differ"
    ELSE IF ~PrefixObs(o) THEN "not-prefix"
    ELSE IF o.result = "err" /\ lt.res # "ok" THEN "later-save-" \o lt.res
    ELSE IF o.result = "err" /\ lt.load # "ok" THEN "later-load-" \o lt.load
    ELSE IF o.result = "err" /\ ~lt.valid THEN "later-file-invalid"
    ELSE IF o.result = "err" /\ ~lt.same THEN "later-content-differs"
    \* same objects and trailer entries, but the cross-reference bookkeeping (number of the cross-reference
    \* stream, Size, Index, max_id) is not that of a fresh clone's save: the failed save changed the document
    ELSE IF ~LaterObs(o, lt) THEN "later-bookkeeping-differs"
    ELSE "ok"

NoLater   == [res |-> "none", load |-> "none", same |-> FALSE, valid |-> FALSE, strict |-> FALSE]
GoodLater == [res |-> "ok", load |-> "ok", same |-> TRUE, valid |-> TRUE, strict |-> TRUE]

\* Two saves of ONE document object to two sinks that chunk differently and never fail: both succeed, the
\* first writes the complete output, and so does the second ("the bytes written do not depend on how the
\* sink splits writes": they depend on the document only, and a save does not change it).
\*   t.res1, t.res2 results;  t.eq1 first output = reference;  t.same2 / t.strict2 / t.valid2 as for `later`
TwiceVerdict(t) ==
    IF t.res1 = "panic" \/ t.res2 = "panic" THEN "panic"
    ELSE IF t.res1 # "ok" THEN "chunking-error"
    ELSE IF ~t.eq1 THEN "bytes-differ"
    ELSE IF t.res2 # "ok" THEN "second-save-" \o t.res2
    ELSE IF t.load2 # "ok" THEN "second-save-load-" \o t.load2
    ELSE IF ~t.valid2 THEN "second-save-file-invalid"
    ELSE IF ~t.same2 THEN "second-save-content-differs"
    ELSE IF ~t.strict2 THEN "second-save-bookkeeping-differs"
    ELSE "ok"

\* Documents at the numeric limit of the object number (highest number 2^32 - 2, which the loader accepts).
\* A writer may refuse such a document (Err on every sink, healthy or not) or write it; it may not panic, not
\* answer a sink failure with success, and not report success for a file that cannot be loaded.
\*   m.ref   result of saving a fresh clone to a healthy sink, m.refload of loading that output ("none" if no output)
\*   m.failed the sink of THIS run failed, m.result its result
\*   m.later, m.laterload  the later save of the same object to a healthy sink after a failed run, and its load
LimitVerdict(m) ==
    IF m.result = "panic" THEN "panic"
    ELSE IF m.result = "crash" THEN "abort"
    ELSE IF m.result = "hang" \/ m.ref = "hang" THEN "timeout"          \* not judged (a loop over 2^32 numbers is slow, not wrong)
    ELSE IF m.failed /\ m.result # "err" THEN "err-not-surfaced"
    ELSE IF ~m.failed /\ m.result = "ok" /\ m.refload # "ok" THEN "success-for-unloadable-file"
    ELSE IF ~m.failed /\ m.result # m.ref THEN "chunking-error"
    ELSE IF m.failed /\ m.ref # "err" /\ m.later # "ok" THEN "later-save-" \o m.later
    ELSE IF m.failed /\ m.ref # "err" /\ m.laterload # "ok" THEN "later-load-" \o m.laterload
    ELSE "ok"

\* what the declarative layer predicts for a sink schedule (sequence of responses): the save fails
\* iff some response is a failure
ExpectResult(resps) == IF \E k \in 1..Len(resps) : IsFailure(resps[k]) THEN "err" ELSE "ok"

-----------------------------------------------------------------------------
(* Impl-shaped layer, projected to lengths.                                  *)
(* W: lengths of the buffers handed to write_all, in order.                  *)
(* s.i      index of the buffer in progress (rest > 0) / last completed one   *)
(* s.rest   bytes of buffer s.i not yet accepted                             *)
(* s.dlen   bytes accepted so far                                            *)
(* s.stopped  write_all returned Err: the writer makes no further calls       *)
(* s.drift  the log is not a behaviour of the modelled loop (explains only)   *)
(* s.bad    the log is not a behaviour of ANY sink (accepted more than given) *)
(***************************************************************************)
LInit(W, j, d) == [W |-> W, i |-> j, rest |-> 0, dlen |-> d, failed |-> FALSE, nintr |-> 0,
                   stopped |-> FALSE, drift |-> FALSE, bad |-> FALSE]

\* write_all(b"") makes no call: the next buffer the sink sees is the next non-empty one
NextBuf(W, i) ==
    IF i < Len(W) /\ W[i + 1] > 0 THEN i + 1
    ELSE LET cand == {m \in (i + 1)..Len(W) : W[m] > 0}
         IN  IF cand = {} THEN Len(W) + 1 ELSE CHOOSE m \in cand : \A x \in cand : m <= x

\* one inner.write(len) -> res as seen by the sink
LStep(s, c) ==
    LET len == c[1]
        res == c[2]
        m   == IF s.rest = 0 THEN NextBuf(s.W, s.i) ELSE s.i
        exp == IF s.rest > 0 THEN s.rest ELSE IF m <= Len(s.W) THEN s.W[m] ELSE 0
        dr  == s.drift \/ s.stopped \/ len # exp
    IN  IF res > 0 THEN
            [s EXCEPT !.i = m, !.rest = IF res <= len THEN len - res ELSE 0, !.dlen = s.dlen + res,
                      !.drift = dr, !.bad = s.bad \/ res > len \/ len = 0, !.stopped = FALSE]
        ELSE IF res = RIntr THEN
            [s EXCEPT !.i = m, !.rest = len, !.nintr = s.nintr + 1, !.drift = dr, !.stopped = FALSE]
        ELSE IF res = ROk0 \/ res = RErr THEN
            [s EXCEPT !.i = m, !.rest = 0, !.failed = TRUE, !.stopped = TRUE, !.drift = dr]
        ELSE [s EXCEPT !.bad = TRUE]

LRun(W, j, d, calls) == FoldLeft(LStep, LInit(W, j, d), calls)

\* the writer ran to completion according to the modelled loop
LComplete(s) == s.rest = 0 /\ ~s.stopped /\ NextBuf(s.W, s.i) = Len(s.W) + 1
=============================================================================
