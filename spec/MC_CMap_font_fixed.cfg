SPECIFICATION Spec
CONSTANTS
  Lens = {1}
  NCodes = 1
  MaxDefs = 2
  Dev_h34 = FALSE
  Dev_h35 = FALSE
  Emit = FALSE
  KnownClasses = {}
  Rich = FALSE
  SingleRangeStr = TRUE
  Styles <- FontOnly
  Dev_gram <- GramRepaired
  BaseVal <- BaseMid
INVARIANTS Refines SegmentationOK MapsOK DomainOK BuildForm
CHECK_DEADLOCK FALSE
