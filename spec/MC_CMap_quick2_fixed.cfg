SPECIFICATION Spec
CONSTANTS
  Lens = {1, 2}
  NCodes = 3
  MaxDefs = 2
  Dev_h34 = FALSE
  Dev_h35 = FALSE
  Emit = FALSE
  KnownClasses = {}
  Rich = TRUE
  SingleRangeStr = FALSE
  Styles <- CanonOnly
  Dev_gram <- GramAsIs
  BaseVal <- BaseMid
INVARIANTS Refines SegmentationOK MapsOK DomainOK BuildForm
CHECK_DEADLOCK FALSE
