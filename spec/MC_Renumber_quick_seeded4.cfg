SPECIFICATION Spec
CONSTANTS
  Layouts <- LayoutsFit
  DangIds <- DangQuick
  Starts = {1, 2, 5}
  DevChain = FALSE
  DevDang = FALSE
  DevUnder = FALSE
  DevDup = FALSE
  DevClash = FALSE
  DevBmDang = FALSE
  DevReach = FALSE
  DevZero = FALSE
  DevFit = "wrap"
  Limit = 20
  Allowed = {"ok", "max_id.exactfit"}
  Emit = TRUE
  EmitMod = 1
INVARIANTS Refines Consistent FunctionForm RepairedRefines EmitInv
CHECK_DEADLOCK FALSE
