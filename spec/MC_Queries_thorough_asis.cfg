SPECIFICATION Spec
CONSTANTS
  N = 4
  DerefLimit = 128
  Dev_NextCycle = TRUE
  Dev_FirstCycle = TRUE
  Dev_KidsCycle = TRUE
  Dev_DestIndex = TRUE
  Dev_NdUnwrapD = TRUE
  Dev_NdKeyStr = TRUE
  Dev_NdValIndex = TRUE
  Dev_CsIndex = TRUE
  Dev_SizeHint = TRUE
  Emit = TRUE
  Scen = {"deref", "links", "kids"}
INVARIANTS PcOK Bounded RsrcDepth EmitInv

CHECK_DEADLOCK FALSE
