SPECIFICATION Spec
CONSTANTS
  N = 4
  DerefLimit = 128
  Dev_NextCycle = FALSE
  Dev_FirstCycle = FALSE
  Dev_KidsCycle = FALSE
  Dev_DestIndex = FALSE
  Dev_NdUnwrapD = FALSE
  Dev_NdKeyStr = FALSE
  Dev_NdValIndex = FALSE
  Dev_CsIndex = FALSE
  Dev_SizeHint = FALSE
  Dev_RsrcRecursion = FALSE
  Dev_FirstDepth = FALSE
  Dev_KidsDepth = FALSE
  FirstWalkIterative = TRUE
  StackFrames = 300
  OutlineDepthLimit = 256
  NameTreeDepthLimit = 256
  ChainLens = {1, 10, 100, 127, 128, 129, 256, 257, 258, 299, 300, 301, 320}
  Emit = TRUE
  Scen = {"chain", "deref", "links", "kids"}
INVARIANTS ChainOK StackOK PcOK Bounded RsrcDepth EmitInv

CHECK_DEADLOCK FALSE
