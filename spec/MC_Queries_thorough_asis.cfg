SPECIFICATION Spec
CONSTANTS
  N = 4
  DerefLimit = 128
  Dev_NextCycle = FALSE
  Dev_FirstCycle = FALSE
  Dev_KidsCycle = FALSE
  Dev_DestIndex = FALSE
  Dev_NdUnwrapD = FALSE
  Dev_NdKeyStr = FALSE
  Dev_NdValIndex = FALSE
  Dev_CsIndex = FALSE
  Dev_SizeHint = FALSE
  Emit = TRUE
  Scen = {"deref", "links", "kids"}
INVARIANTS PcOK Bounded RsrcDepth TotalInv EmitInv

CHECK_DEADLOCK FALSE
