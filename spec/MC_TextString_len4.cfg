SPECIFICATION Spec
CONSTANTS
  Reps <- RepsQuick
  MaxLen = 4
  RawAlphabet <- RawBytes
  RawLen = 3
  RawExtra <- RawLong
  Dev <- AsIsDevs
  Emit = TRUE
INVARIANTS TypeOK TextRT_Decl Utf8Too_Decl Codecs_Decl AsciiStays FunctionForm Refines Repaired Distinct EmitInv
CHECK_DEADLOCK FALSE
