---------------------------- MODULE ContentHist ----------------------------
(***************************************************************************)
(* C14, history independence.  Content::encode / Content::decode must be    *)
(* functions of their argument alone: between any two judged calls the      *)
(* process may have decoded arbitrary other inputs -- including damaged     *)
(* ones -- on the same thread or on another one, and the judged result must  *)
(* be what a fresh process returns.                                          *)
(*                                                                          *)
(* Declarative layer: DeclOk(d) -- a valid operation list whose operands    *)
(* nest arrays / dictionaries d deep decodes iff d is within the parser's    *)
(* documented limit; nothing else enters.  (What it decodes *to* is          *)
(* Content!ReadOps; Trace_Content judges that for every recorded call, with  *)
(* or without disturbances before it.)                                       *)
(*                                                                          *)
(* Impl-shaped layer: lopdf's object parser keeps a per-thread nesting       *)
(* counter (parser::NESTING, limit MAX_NESTING) that array() / dictionary()  *)
(* increment on entry and decrement when they return, on the success and on  *)
(* the error path (NestingGuard's Drop).  A damaged input opens some levels  *)
(* and then fails.  Leak = TRUE is the deviation "the error path does not    *)
(* give the level back": TLC must then find a history after which a valid    *)
(* call fails (the check asserts that this counter-example exists, so the    *)
(* model can see the class).                                                 *)
(***************************************************************************)
EXTENDS Naturals, Sequences

CONSTANTS MaxNest,     \* the nesting limit, in model units
          Threads,     \* threads of the process (the judging thread, a pool worker)
          Leak,        \* deviation switch of the impl-shaped layer
          MaxDisturb   \* disturbances per behaviour

\* kinds of damaged input and how many container levels each has opened when the parser gives up
Kinds == {"trunc-array", "trunc-dict", "trunc-string", "too-deep", "unbalanced", "bad-token", "inline-trunc", "load-damaged"}
Opened(kind) == IF kind \in {"trunc-array", "trunc-dict", "load-damaged"} THEN 2
                ELSE IF kind = "too-deep" THEN MaxNest + 1
                ELSE 1

VARIABLES nest,    \* thread -> value of its nesting counter between calls
          hist,    \* the calls made so far: <<[a |-> "disturb", t, kind] | [a |-> "judge", t, d]>>
          res,     \* result of the last judged call: [valid, t, d, ok]
          nd       \* disturbances so far

hvars == <<nest, hist, res, nd>>

NoRes == [valid |-> FALSE, t |-> 0, d |-> 0, ok |-> TRUE]

Init == nest = [t \in Threads |-> 0] /\ hist = <<>> /\ res = NoRes /\ nd = 0

Min(a, b) == IF a < b THEN a ELSE b

\* thread t decodes a damaged input of the given kind: it enters levels until the limit or the damage, then fails
Disturb(t, kind) ==
    /\ nd < MaxDisturb /\ ~res.valid          \* a behaviour ends with its judged call
    /\ LET entered == Min(Opened(kind), MaxNest - nest[t]) IN
       nest' = IF Leak THEN [nest EXCEPT ![t] = @ + entered] ELSE nest
    /\ hist' = Append(hist, [a |-> "disturb", t |-> t, kind |-> kind, d |-> 0])
    /\ res' = NoRes /\ nd' = nd + 1

\* thread t decodes valid content whose operands nest d deep: every level entered is left again
Judge(t, d) ==
    /\ res.valid = FALSE
    /\ res' = [valid |-> TRUE, t |-> t, d |-> d, ok |-> nest[t] + d <= MaxNest]
    /\ hist' = Append(hist, [a |-> "judge", t |-> t, kind |-> "", d |-> d])
    /\ UNCHANGED <<nest, nd>>

Next == (\E t \in Threads, kind \in Kinds : Disturb(t, kind)) \/ (\E t \in Threads, d \in 0..MaxNest : Judge(t, d))

\* the declarative layer: a function of the argument alone = the result in a fresh process
DeclOk(d) == d <= MaxNest

Functional == res.valid => res.ok = DeclOk(res.d)
=============================================================================
