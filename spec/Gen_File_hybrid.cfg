SPECIFICATION Spec
CONSTANTS
  Emit = TRUE
  Ghosts = FALSE
  SepMode = "all"
  Beyond <- BeyondHybrid
INVARIANTS RoundTrip ImplRefines EmitInv
CHECK_DEADLOCK FALSE
