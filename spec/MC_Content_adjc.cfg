SPECIFICATION Spec
CONSTANTS
  Universe = "adjc"
  Emit = FALSE
  SepMode = "min"
INVARIANTS RoundTrip EmitInv
CHECK_DEADLOCK FALSE
