SPECIFICATION Spec
CONSTANTS
  Thorough = FALSE
  Dev_h41 = FALSE
  Dev_gmt = TRUE
  Dev_y10k = TRUE
  Emit = FALSE
  Tiny = TRUE
INVARIANTS CalendarOk RoundTrip FmtRefines FmtRefinesDone ParseRefines FunctionForm Terminates
CHECK_DEADLOCK FALSE
