SPECIFICATION Spec
CONSTANTS
  MaxB = 4
  NPs = {3}
  MaxPost = 0
  Reserve = TRUE
  Titles <- TitleClasses
  Stack = 64
  WorkList = TRUE
  DestSpellings = {"none"}
  FollowRefs = TRUE
  IdLimits = {1000000}
  CheckedIds = TRUE
  Emit = TRUE
INVARIANTS RefinesForest RefinesAdjust RefinesFresh RefinesLinks RefinesCarries RefinesToc Verdict NoAbort RefusedOk EmitInv
PROPERTIES Reserved
CHECK_DEADLOCK FALSE
