SPECIFICATION Spec
CONSTANTS
  MaxB = 4
  NPs = {3}
  MaxPost = 1
  Reserve = TRUE
  Titles <- TitleClasses
  Emit = TRUE
INVARIANTS RefinesForest RefinesAdjust RefinesFresh RefinesLinks RefinesCarries RefinesToc Verdict EmitInv
PROPERTIES Reserved
CHECK_DEADLOCK FALSE
