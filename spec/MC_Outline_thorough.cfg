SPECIFICATION Spec
CONSTANTS
  MaxB = 4
  NPs = {3}
  MaxPost = 1
  Reserve = TRUE
  Titles <- TitleClasses
  Stack = 64
  WorkList = FALSE
  DestSpellings = {"none"}
  FollowRefs = FALSE
  IdLimits = {1000000}
  CheckedIds = FALSE
  Emit = TRUE
INVARIANTS RefinesForest RefinesAdjust RefinesFresh RefinesLinks RefinesCarries RefinesToc Verdict NoAbort RefusedOk EmitInv
PROPERTIES Reserved
CHECK_DEADLOCK FALSE
