SPECIFICATION Spec
CONSTANTS
  Universe = "nested2"
  Emit = FALSE
  SepMode = "few"
INVARIANTS RoundTrip EmitInv
CHECK_DEADLOCK FALSE
