------------------------------ MODULE Security ------------------------------
(***************************************************************************)
(* Standard security handler life-cycle (property C05): encrypt, decrypt,   *)
(* authenticate, save, load, with SYMBOLIC cryptography.                    *)
(*                                                                          *)
(* Two layers (DESIGN 2.9):                                                 *)
(*  - declarative: Judge — the property as stated, evaluated on what can be *)
(*    OBSERVED of one public call (its Result variant, whether the trailer  *)
(*    has /Encrypt, the number of objects, and for every string / stream of *)
(*    the document whether it equals its plaintext), using the ISO 32000    *)
(*    rule IsoSubject / IsoMethod for what must be hidden and the password  *)
(*    relation induced by the algorithms' own canonicalisation.  Its        *)
(*    clauses are Restored, Hidden, Rejects, EitherPw, ViaFile.  Only this  *)
(*    layer decides.                                                        *)
(*  - impl-shaped: Step — lopdf's calls transcribed (Document::encrypt /    *)
(*    decrypt / authenticate_*, EncryptionState::try_from / decode,         *)
(*    encrypt_object / decrypt_object, Reader::read's auto-decrypt) over a  *)
(*    document whose string / stream payloads are symbolic terms.  Confirmed*)
(*    deviations of the code are switches Dev_* so that TLC can explore the *)
(*    design "as the code is" and "as repaired".                            *)
(*                                                                          *)
(* Symbolic crypto (perfect-cipher assumption, removed by C06):             *)
(*   payload = [pid, n0, base, gl, layers]                                  *)
(*     base = "P": the original plaintext pid (n0 bytes); "G": garbage of   *)
(*     gl bytes; layers = sequence of <<method, key>>, outermost last.      *)
(*   Enc pushes a layer; Dec(m,k) pops the layer <<m,k>> (cancellation law  *)
(*   Dec(m,k,Ct(m,k,x)) = x); any other key gives Garbage for RC4 (a layer  *)
(*   that only the same wrong key removes again) and a padding error for    *)
(*   AES.  RC4 is the identity on the empty string, AES ciphertext is       *)
(*   16 + 16*(n \div 16 + 1) bytes long.                                    *)
(***************************************************************************)
EXTENDS Naturals, Sequences, FiniteSets

CONSTANTS Dev_h12,     \* TRUE = the repaired defect: R<=4 file key derived from the password given, also when it is the owner password
          Dev_h13,     \* TRUE = the repaired defect: the dictionary of a stream is not walked
          Dev_t127,    \* TRUE = the repaired defect: R>=5 /U and /O are computed from the untruncated password, authentication truncates to 127 bytes
          Dev_mdict,   \* TRUE = the repaired defect: the Metadata exemption also skips non-stream dictionaries typed /Metadata
          Dev_drop,    \* TRUE = as the code is: revisions 2-4 DROP every character of a password that PDFDocEncoding lacks
          Dev_cryptv,  \* TRUE = as the code is: a stream's Crypt filter entry is honoured below V 4 (no crypt filters there: Identity)
          Dev_mdstr,   \* TRUE = as the code is: EncryptMetadata false also skips the strings of the metadata stream's dictionary
          Dev_osres,   \* TRUE = as the code is: Decrypt's re-expansion of object streams brings back members the caller deleted
          Dev_cind,    \* TRUE = as the code is: Crypt filter parameters given through an indirect object count as absent (Identity)
          Dev_osrep,   \* TRUE = a seeded defect (never in the code): Decrypt's re-expansion of object streams REPLACES live objects
          Dev_dparr    \* TRUE = the repaired defect: a Crypt override given in the array form of DecodeParms is ignored

-----------------------------------------------------------------------------
(* Payload algebra *)

\* ed: how often the item was edited since the run began (the plaintext an item has to come back to is the
\* one it had when it was encrypted); base "O": the old copy of an edited item kept inside an object stream.
Plain(pid, n) == [pid |-> pid, n0 |-> n, ed |-> 0, base |-> "P", gl |-> 0, layers |-> <<>>]

IsAes(m) == m \in {"AES128", "AES256"}

AesLen(n) == 16 + 16 * ((n \div 16) + 1)

RECURSIVE LayLen(_, _)
LayLen(n, ls) == IF ls = <<>> THEN n
                 ELSE LayLen(IF IsAes(Head(ls)[1]) THEN AesLen(n) ELSE n, Tail(ls))

LenOf(pl) == LayLen(IF pl.base = "P" THEN pl.n0 ELSE pl.gl, pl.layers)

IsPlain(pl) == pl.base = "P" /\ pl.layers = <<>>

Garbage(pl, n) == [pl EXCEPT !.base = "G", !.gl = n, !.layers = <<>>]

\* RC4 is an involution: encrypting and decrypting are the same XOR with the key stream of k, XORs with different
\* keys commute and cancel pairwise.  So among the RC4 layers on top of a payload a layer with the same key is
\* removed, otherwise one is added (a payload carrying a layer of a wrong key is what the text calls Garbage).
Rc4(k, pl) ==
    IF LenOf(pl) = 0 THEN pl
    ELSE LET ls  == pl.layers
             st  == IF \E i \in 1..Len(ls) : ls[i][1] # "RC4"
                    THEN 1 + CHOOSE i \in 1..Len(ls) : ls[i][1] # "RC4" /\ \A x \in (i + 1)..Len(ls) : ls[x][1] = "RC4"
                    ELSE 1
             hit == {i \in st..Len(ls) : ls[i] = <<"RC4", k>>}
         IN IF hit = {} THEN [pl EXCEPT !.layers = Append(ls, <<"RC4", k>>)]
            ELSE LET h == CHOOSE i \in hit : TRUE IN [pl EXCEPT !.layers = SubSeq(ls, 1, h - 1) \o SubSeq(ls, h + 1, Len(ls))]

\* CryptFilter::encrypt
Enc(m, k, pl) ==
    IF m = "Identity" THEN pl
    ELSE IF m = "RC4" THEN Rc4(k, pl)
    ELSE [pl EXCEPT !.layers = Append(@, <<m, k>>)]

\* CryptFilter::decrypt: [pl, err]
Dec(m, k, pl) ==
    LET n == LenOf(pl) ls == pl.layers IN
    IF m = "Identity" THEN [pl |-> pl, err |-> ""]
    ELSE IF m = "RC4" THEN [pl |-> Rc4(k, pl), err |-> ""]
    ELSE \* AES-CBC with PKCS#5: wrong key = padding error (a valid padding by chance, 1 in 256, is not modelled)
         IF n % 16 # 0 THEN [pl |-> pl, err |-> "InvalidCipherTextLength"]
         ELSE IF n = 0 \/ n = 16 THEN [pl |-> IF pl.n0 = 0 /\ pl.base = "P" THEN [pl EXCEPT !.layers = <<>>] ELSE Garbage(pl, 0), err |-> ""]
         ELSE IF ls # <<>> /\ ls[Len(ls)] = <<m, k>> THEN [pl |-> [pl EXCEPT !.layers = SubSeq(ls, 1, Len(ls) - 1)], err |-> ""]
         ELSE [pl |-> pl, err |-> "Padding"]

-----------------------------------------------------------------------------
(* Documents.  An object is one of                                          *)
(*   [k |-> "str", pl]          [k |-> "arr", v]       [k |-> "other"]      *)
(*   [k |-> "dict", typ, v]     [k |-> "stream", typ, crypt, d, pl]         *)
(*   [k |-> "encdict"]          (the encryption dictionary itself)          *)
(* typ is "Metadata", "XRef" or "-"; v / d are sequences of objects (the    *)
(* values of the entries in iteration order); crypt describes the stream's  *)
(* Crypt filter: [f |-> "none" | "name" | "noname" | "nodp" | "arr", n]     *)
(*   name  : /Filter has Crypt, /DecodeParms << /Name /n >>                 *)
(*   noname: /DecodeParms is a dictionary without Name                      *)
(*   nodp  : /Filter has Crypt, no (usable) DecodeParms                     *)
(*   arr   : /DecodeParms [ << /Name /n >> ... ] (array form)               *)
(* objs is a function from 1..N (position in object-id order) to objects.   *)
(* typ also "ObjStm": an object stream container that the loader left in the *)
(* document next to the objects unpacked from it.  Every stream has a field *)
(* mem; for a container it is the ghost fact of what its content holds:     *)
(* <<[pos, obj]>> = the member at position pos as it was stored (its live    *)
(* copy is objs[pos]); <<>> for all other streams.                          *)

\* (ind: the decode parameters, or the Name in them, are given through an indirect object)
NoCrypt == [f |-> "none", n |-> "", ind |-> FALSE]

\* cross-reference bookkeeping: kept in a loaded Document, never written by save
Bookkeeping == {"XRef", "ObjStm"}

\* containers are given with the positions of their members; the ghost copies are the live objects at that time
AttachMembers(objs) ==
    [i \in DOMAIN objs |->
        IF objs[i].k = "stream"
        THEN [objs[i] EXCEPT !.mem = [x \in DOMAIN objs[i].mem |-> [pos |-> objs[i].mem[x], obj |-> objs[objs[i].mem[x]]]]]
        ELSE objs[i]]

\* crypt filter table: sequence of <<name, method>>
CfMethod(cf, name) ==
    LET hits == {i \in 1..Len(cf) : cf[i][1] = name}
    IN IF hits = {} THEN "none" ELSE cf[CHOOSE i \in hits : TRUE][2]

-----------------------------------------------------------------------------
(* ISO 32000 rule (declarative): which items are subject to encryption, and  *)
(* with which method.  An item is the observation record of one string or   *)
(* stream:  [kind, insd, otyp, inmd, crypt, len, eq, present]                *)
(*   kind "str" | "stream"; insd: inside a stream's dictionary; otyp: /Type  *)
(*   class of the enclosing top-level STREAM ("-" otherwise); inmd: some     *)
(*   enclosing non-stream dictionary is typed /Metadata; len: plaintext      *)
(*   length; eq: equals its plaintext now; present: still there; osm: the    *)
(*   object is a member of an object stream container held by the document.  *)

\* Exempt are the cross-reference stream with the strings of its dictionary, and the DATA of a metadata stream when
\* EncryptMetadata is false (the strings of that stream's dictionary are ordinary strings of the document).  Below V 4
\* there are no crypt filters (CF, StmF, StrF, Crypt "meaningful only when V is 4 or 5"): every stream is RC4-encrypted
\* with the file key, whatever its /Filter entry says.
IsoSubject(cfg, it) ==
    IF it.otyp = "XRef" THEN "no"
    ELSE IF it.otyp = "Metadata" /\ ~cfg.em /\ ~it.insd THEN "no"
    ELSE "yes"

IsoNamed(cfg, name) ==
    IF name = "Identity" THEN "Identity"
    ELSE LET m == CfMethod(cfg.cf, name) IN IF m = "none" THEN "unspec" ELSE m

IsoMethod(cfg, it) ==
    IF cfg.V < 4 THEN "RC4"
    ELSE IF it.kind = "str" THEN IsoNamed(cfg, cfg.strf)
    ELSE IF it.crypt.f = "none" THEN IsoNamed(cfg, cfg.stmf)
    ELSE IF it.crypt.f \in {"name", "arr"} THEN IsoNamed(cfg, it.crypt.n)
    ELSE "Identity"

MustHide(cfg, it) ==
    /\ IsoSubject(cfg, it) = "yes"
    /\ it.len >= 16
    /\ IsoMethod(cfg, it) \notin {"Identity", "unspec"}

\* narrow class of an item that should be hidden but still equals its plaintext
HiddenClass(cfg, it) ==
    IF it.kind = "str" /\ it.insd /\ it.otyp = "Metadata" /\ ~cfg.em THEN "metadata.streamdict"
    ELSE IF it.kind = "stream" /\ it.crypt.f # "none" /\ cfg.V < 4 THEN "crypt.belowV4"
    ELSE IF it.kind = "str" /\ it.insd THEN "streamdict.string"
    ELSE IF it.kind = "stream" /\ it.crypt.ind THEN "crypt.indirect"
    ELSE IF it.kind = "stream" /\ it.crypt.f = "arr" THEN "crypt.dparray"
    ELSE IF it.inmd /\ ~cfg.em THEN "metadata.nonstream"
    ELSE "hidden.other"

HiddenFails(cfg, items) ==
    {HiddenClass(cfg, items[i]) : i \in {x \in 1..Len(items) : MustHide(cfg, items[x]) /\ items[x].present /\ items[x].eq}}

\* objects that save never writes (cross-reference bookkeeping, C01) are not demanded back from a file
\* (gone: the caller deleted the object the item was in - it has to stay away)
Demanded(it, viaFile) == ~(viaFile /\ it.otyp \in Bookkeeping) /\ ~it.gone

AllEq(items, viaFile) ==
    \A i \in 1..Len(items) : Demanded(items[i], viaFile) => items[i].present /\ items[i].eq

-----------------------------------------------------------------------------
(* Password relations.  A password offered to a call is described relative  *)
(* to the configured user / owner password by                               *)
(*   [u, o] with values "same" (the very string), "equiv" (another string   *)
(*   with the same canonical form under the revision's own canonicalisation:*)
(*   PDFDocEncoding + first 32 bytes for R<=4, SASLprep + first 127 bytes   *)
(*   for R>=5), "diff" (canonical forms differ), "unsure" (the canonical     *)
(*   forms depend on what is done with characters PDFDocEncoding lacks).     *)
(* Revisions 2-4, characters without a PDFDocEncoding code: ISO 32000 leaves  *)
(* their treatment to the implementation; whatever it is (refusing the        *)
(* password, or an injective fall-back such as UTF-8), two passwords that      *)
(* differ in such a character within their first 8 characters are different    *)
(* passwords ("diff").  A configuration whose user or owner password is not    *)
(* representable (cfg.urep / cfg.orep; for R >= 5: SASLprep refuses it) may be *)
(* refused by MakeState; if it is accepted the clauses apply to it.           *)
(* Further fields of a relation, read by the impl-shaped layer only:          *)
(*   ud / od : the password authenticates as user / owner under lopdf's       *)
(*   convention of today (unencodable characters dropped); rep: representable. *)

Right(rel) == rel.u = "same" \/ rel.o = "same"
Wrong(rel) == rel.u = "diff" /\ rel.o = "diff"

\* why a right password failed: the narrow classes of the confirmed deviations
\* a password with characters PDFDocEncoding lacks is involved (the narrow class of Dev_drop)
Unencodable(cfg, rel) == cfg.R <= 4 /\ (~rel.rep \/ ~cfg.urep \/ ~cfg.orep)
\* Revisions 2-4 only: an empty owner password means "no owner password", the user password stands in for it (ISO
\* 32000-1 Algorithm 3 a; rel.o is taken against that).  Algorithms 8 / 9 of revisions 5-6 have no such step: there an
\* empty owner password IS the owner password (the empty password opens the document, and rightly so).
WrongAcceptedClass(cfg, rel, dflt) ==
    IF Unencodable(cfg, rel) THEN "pw.unencodable.R234" ELSE dflt

RightFailClass(cfg, rel, dflt) ==
    IF Unencodable(cfg, rel) THEN "pw.unencodable.R234"
    ELSE IF cfg.R <= 4 /\ rel.o = "same" /\ rel.u = "diff" THEN "owner.R234.key"
    ELSE IF cfg.R >= 5 /\ (rel.u = "same" => cfg.ulen > 127) /\ (rel.o = "same" => cfg.olen > 127) THEN "pw.gt127.R56"
    ELSE dflt

\* why the content came back wrong although a right password was accepted
ContentFailClass(cfg, rel, dflt) ==
    IF cfg.R <= 4 /\ rel.o = "same" /\ rel.u = "diff" THEN "owner.R234.key" ELSE dflt

-----------------------------------------------------------------------------
(* Declarative layer: Judge.                                                *)
(* cfg = [V, R, klen, em, cf, stmf, strf, ulen, olen, e, nobj0]             *)
(*   e = relation of the EMPTY password (what the loader tries), nobj0 =     *)
(*   number of objects of the plaintext document.                            *)
(* j   = [mem, disk, via, st]: what the in-memory document / the saved file are *)
(*   according to the PROPERTY: "plain", "enc" (the plaintext document       *)
(*   encrypted under cfg), "lost" (after an anomaly: nothing is demanded     *)
(*   until the run is reset), disk also "none"; via: the in-memory document  *)
(*   was read from a file (bookkeeping objects are then not demanded); st:   *)
(*   the caller holds an EncryptionState (MakeState was not refused).        *)
(* ev  = [call, rel, res ("Ok" | "Err"), tenc, nobj, items, same]            *)
(* Result: [ok, tags, j]                                                    *)

Vd(ok, tags, j) == [ok |-> ok, tags |-> tags, j |-> j]

Resync(cfg, ev, viaFile) == IF ~ev.tenc /\ ev.nobj = cfg.nobj0 /\ AllEq(ev.items, viaFile) THEN "plain" ELSE "lost"

\* content: the tag for "some item is not restored" (a narrow class where the call belongs to one); rev: the document
\* was read from a file of several revisions with object streams
RestoredTagsR(cfg, ev, viaFile, content, rev) ==
    LET bad == {i \in 1..Len(ev.items) : Demanded(ev.items[i], viaFile) /\ ~(ev.items[i].present /\ ev.items[i].eq)} IN
    (IF \E i \in 1..Len(ev.items) : ev.items[i].gone /\ ev.items[i].present THEN {"objstm.member.resurrected"}
     ELSE IF ev.tenc \/ ev.nobj # cfg.nobj0 THEN {"restored.encdict"} ELSE {})
    \cup (IF bad = {} THEN {}
          \* only copies held by object stream containers came back, everything else is fine: its own class
          ELSE IF (\A i \in bad : ev.items[i].osm) /\ (rev \/ \E i \in 1..Len(ev.items) : ~ev.items[i].osm /\ ev.items[i].len > 0 /\ ev.items[i].otyp \notin Bookkeeping)
          THEN {"restored.objstm.member"}
          ELSE {content})
RestoredTags(cfg, ev, viaFile, content) == RestoredTagsR(cfg, ev, viaFile, content, FALSE)

\* j.rev (the document was read from a file of several revisions with object streams): a member that comes back with
\* another value is the copy of a superseded revision
RevClass(j, t) == IF j.rev THEN {IF c = "restored.objstm.member" THEN "objstm.revision.stale" ELSE c : c \in t} ELSE t

JudgeEncrypt(cfg, j, ev) ==
    IF j.mem # "plain" \/ ~j.st THEN Vd(TRUE, {"ok-unjudged"}, [j EXCEPT !.mem = IF ev.same THEN j.mem ELSE "lost"])
    ELSE IF ev.res # "Ok" THEN Vd(FALSE, {"encrypt.err"}, [j EXCEPT !.mem = Resync(cfg, ev, j.via)])
    ELSE LET t1 == IF ~ev.tenc \/ ev.nobj # cfg.nobj0 + 1 THEN {"encrypt.noencdict"} ELSE {}
             t2 == HiddenFails(cfg, ev.items)
         IN Vd(t1 \cup t2 = {}, IF t1 \cup t2 = {} THEN {"ok"} ELSE t1 \cup t2,
              [j EXCEPT !.mem = IF t1 = {} THEN "enc" ELSE "lost", !.rev = FALSE])

JudgeDecrypt(cfg, j, ev) ==
    IF j.mem # "enc"
    THEN Vd(TRUE, {IF ev.res = "Err" /\ ev.same THEN "ok-notenc" ELSE "ok-unjudged"},
           [j EXCEPT !.mem = IF ev.same THEN j.mem ELSE "lost"])
    ELSE IF Right(ev.rel)
    THEN IF ev.res # "Ok"
         THEN Vd(FALSE, {RightFailClass(cfg, ev.rel, "either.rejected")}, [j EXCEPT !.mem = IF ev.same THEN "enc" ELSE "lost"])
         ELSE LET t == RestoredTagsR(cfg, ev, j.via, ContentFailClass(cfg, ev.rel, "restored.content"), j.rev) IN
              IF t = {} THEN Vd(TRUE, {"ok-restored"}, [j EXCEPT !.mem = "plain"])
              ELSE Vd(FALSE, RevClass(j, t), [j EXCEPT !.mem = Resync(cfg, ev, j.via)])
    ELSE IF Wrong(ev.rel)
    THEN IF ev.res = "Ok" THEN Vd(FALSE, {WrongAcceptedClass(cfg, ev.rel, "rejects.accepted")}, [j EXCEPT !.mem = Resync(cfg, ev, j.via)])
         ELSE IF ~ev.same THEN Vd(FALSE, {"rejects.mutated"}, [j EXCEPT !.mem = "lost"])
         ELSE Vd(TRUE, {"ok-rejected"}, j)
    ELSE \* an equivalent password: acceptance is not demanded, but an accepted one must restore
         IF ev.res = "Ok"
         THEN LET t == RestoredTags(cfg, ev, j.via, IF cfg.R <= 4 /\ ev.rel.u = "diff" THEN "owner.R234.key" ELSE "restored.content") IN
              IF t = {} THEN Vd(TRUE, {"ok-equiv-restored"}, [j EXCEPT !.mem = "plain"])
              ELSE Vd(FALSE, RevClass(j, t), [j EXCEPT !.mem = Resync(cfg, ev, j.via)])
         ELSE Vd(TRUE, {"ok-equiv-rejected"}, [j EXCEPT !.mem = IF ev.same THEN "enc" ELSE "lost"])

JudgeAuth(cfg, j, ev) ==
    IF j.mem # "enc" \/ ~ev.same THEN Vd(ev.same, {IF ev.same THEN "ok-unjudged" ELSE "rejects.mutated"}, [j EXCEPT !.mem = IF ev.same THEN j.mem ELSE "lost"])
    ELSE LET must == \/ ev.call = "AuthUser" /\ ev.rel.u = "same"
                     \/ ev.call = "AuthOwner" /\ ev.rel.o = "same"
                     \/ ev.call = "Auth" /\ Right(ev.rel)
             \* the relation relevant for the narrow class
             r == IF ev.call = "AuthUser" THEN [ev.rel EXCEPT !.o = "diff"]
                  ELSE IF ev.call = "AuthOwner" THEN [ev.rel EXCEPT !.u = "diff"] ELSE ev.rel
         IN IF must /\ ev.res # "Ok"
            THEN Vd(FALSE, {IF cfg.R >= 5 \/ Unencodable(cfg, r) THEN RightFailClass(cfg, r, "either.auth.rejected") ELSE "either.auth.rejected"}, j)
            ELSE IF Wrong(ev.rel) /\ ev.res = "Ok" THEN Vd(FALSE, {WrongAcceptedClass(cfg, ev.rel, "rejects.auth.accepted")}, j)
            ELSE Vd(TRUE, {IF must THEN "ok-auth" ELSE IF Wrong(ev.rel) THEN "ok-auth-rejected" ELSE "ok-unjudged"}, j)

JudgeSave(cfg, j, ev) ==
    IF ev.res = "Ok" /\ ev.same THEN Vd(TRUE, {"ok-saved"}, [j EXCEPT !.disk = j.mem, !.rev = FALSE, !.inc = FALSE])
    ELSE Vd(TRUE, {"ok-unjudged"}, [j EXCEPT !.mem = IF ev.same THEN j.mem ELSE "lost", !.disk = "lost"])

\* the loader may decrypt on its own, but only with the empty password, and only if that is the user or owner password
LoadFailClass(cfg, dflt) ==
    IF cfg.R <= 4 /\ cfg.e.o \in {"same", "equiv"} /\ cfg.e.u = "diff" THEN "owner.R234.key" ELSE dflt

JudgeLoad0(cfg, j0, ev) ==
    LET j == [j0 EXCEPT !.via = @ \/ ev.res = "Ok"] IN
    IF j.disk = "enc"
    THEN IF ev.res # "Ok" THEN Vd(FALSE, {LoadFailClass(cfg, "viafile.load.err")}, [j EXCEPT !.mem = IF ev.same THEN j.mem ELSE "lost"])
         ELSE IF ev.tenc
         \* (j.rev: a file with object streams; the loader leaves their members to decrypt, they are not there yet)
         THEN LET t == (IF ev.nobj # cfg.nobj0 + 1 /\ ~j.rev THEN {"viafile.objects"} ELSE {})
                       \cup {"viafile." \o c : c \in HiddenFails(cfg, ev.items) \cap {"hidden.other"}}   \* (the narrow classes were reported when Encrypt was judged)
              IN Vd(t = {}, IF t = {} THEN {"ok-loaded-enc"} ELSE t, [j EXCEPT !.mem = IF t = {} THEN "enc" ELSE "lost"])
         ELSE IF Wrong(cfg.e) THEN Vd(FALSE, {WrongAcceptedClass(cfg, cfg.e, "rejects.load.autodecrypt")}, [j EXCEPT !.mem = Resync(cfg, ev, TRUE)])
         ELSE LET t == RestoredTagsR(cfg, ev, TRUE, LoadFailClass(cfg, "restored.content"), j.rev) IN
              IF t = {} THEN Vd(TRUE, {"ok-loaded-autodecrypted"}, [j EXCEPT !.mem = "plain"])
              ELSE Vd(FALSE, RevClass(j, {IF c \in {"restored.content", "restored.encdict"} THEN "viafile." \o c ELSE c : c \in t}), [j EXCEPT !.mem = Resync(cfg, ev, TRUE)])
    ELSE IF j.disk = "plain"
    THEN IF ev.res = "Ok" /\ ~ev.tenc /\ ev.nobj = cfg.nobj0 /\ AllEq(ev.items, TRUE) THEN Vd(TRUE, {"ok-loaded-plain"}, [j EXCEPT !.mem = "plain"])
         ELSE Vd(TRUE, {"ok-plainfile-differs"}, [j EXCEPT !.mem = IF ev.res = "Ok" THEN Resync(cfg, ev, TRUE) ELSE j.mem])
    ELSE Vd(TRUE, {"ok-unjudged"}, [j EXCEPT !.mem = IF ev.res = "Ok" THEN Resync(cfg, ev, TRUE) ELSE j.mem])

\* j.inc: the file was extended by an incremental update (IncrementalDocument::save_to) of the encrypted document that
\* rewrote an object with the value it has: the document the file denotes is the same; a failure then has its own class
JudgeLoad(cfg, j, ev) ==
    LET v == JudgeLoad0(cfg, j, ev) IN
    IF j.inc /\ ~v.ok THEN [v EXCEPT !.tags = {"incremental.encrypt.dropped"}] ELSE v

\* SaveRev: the driver writes the encrypted form of the unencrypted in-memory document as another producer might - two
\* revisions with object streams, one object moved from the first container to a new one (mem is not changed).
\* SaveInc: an incremental update of the saved file; refusing it is acceptable.
JudgeSaveOther(cfg, j, ev) ==
    IF ev.call = "SaveRev"
    THEN IF j.mem = "plain" /\ j.st /\ ev.res = "Ok" /\ ev.same THEN Vd(TRUE, {"ok-saved-rev"}, [j EXCEPT !.disk = "enc", !.rev = TRUE, !.inc = FALSE])
         ELSE Vd(TRUE, {"ok-unjudged"}, [j EXCEPT !.disk = IF ev.res = "Ok" THEN "lost" ELSE @, !.mem = IF ev.same THEN @ ELSE "lost"])
    ELSE IF ev.res = "Ok" /\ ev.same THEN Vd(TRUE, {"ok-saved-inc"}, [j EXCEPT !.inc = TRUE])
         ELSE Vd(TRUE, {IF ev.same THEN "ok-refused" ELSE "ok-unjudged"}, [j EXCEPT !.mem = IF ev.same THEN @ ELSE "lost"])

\* j.del: objects the caller deleted since the run began (the document is that much smaller)
Judge(cfg0, j, ev) ==
    LET cfg == [cfg0 EXCEPT !.nobj0 = @ - j.del] IN
    CASE ev.call = "Encrypt"   -> JudgeEncrypt(cfg, j, ev)
      [] ev.call = "Decrypt"   -> JudgeDecrypt(cfg, j, ev)
      [] ev.call \in {"AuthUser", "AuthOwner", "Auth"} -> JudgeAuth(cfg, j, ev)
      [] ev.call = "Save"      -> JudgeSave(cfg, j, ev)
      [] ev.call = "Load"      -> JudgeLoad(cfg, j, ev)
      [] ev.call \in {"SaveRev", "SaveInc"} -> JudgeSaveOther(cfg, j, ev)
      \* MakeState, and Rekey = MakeState with another configuration (cfg is the new one; only on a document without
      \* /Encrypt).  A configuration with an unrepresentable password may be refused.
      [] ev.call \in {"MakeState", "Rekey"} ->
            LET jm == IF ev.call = "Rekey" THEN [j EXCEPT !.mem = IF ev.tenc THEN "lost" ELSE @, !.disk = "none", !.rev = FALSE, !.inc = FALSE] ELSE j IN
            IF ev.call = "Rekey" /\ ev.tenc /\ ev.res = "Err" /\ ev.same THEN Vd(TRUE, {"ok-unjudged"}, j)    \* not on an encrypted document
            ELSE IF ev.res = "Ok" /\ ev.same THEN Vd(TRUE, {"ok"}, [jm EXCEPT !.st = TRUE])
            ELSE IF ev.same /\ ~(cfg.urep /\ cfg.orep) THEN Vd(TRUE, {"ok-refused"}, [jm EXCEPT !.st = FALSE])
            ELSE Vd(FALSE, {"makestate.err"}, [jm EXCEPT !.st = FALSE])
      \* an edit of the unencrypted document by the caller: the edited document is what has to come back from now on
      \* (a file saved before the edit holds the old document: nothing is demanded of it any more)
      [] ev.call = "Edit"      -> LET jd == [j EXCEPT !.disk = IF ev.same \/ @ = "none" THEN @ ELSE "lost"] IN
                                  IF j.mem = "plain" /\ ev.res = "Ok" /\ ~ev.tenc /\ AllEq(ev.items, j.via) THEN Vd(TRUE, {"ok-edit"}, jd)
                                  ELSE Vd(TRUE, {"ok-unjudged"}, [jd EXCEPT !.mem = IF ev.same THEN j.mem ELSE "lost"])
      [] ev.call = "Delete"    -> LET jd == [j EXCEPT !.disk = IF ev.same \/ @ = "none" THEN @ ELSE "lost", !.del = IF ev.res = "Ok" /\ ~ev.same THEN @ + 1 ELSE @] IN
                                  IF j.mem = "plain" /\ ev.res = "Ok" /\ ~ev.tenc /\ AllEq(ev.items, j.via) THEN Vd(TRUE, {"ok-delete"}, jd)
                                  ELSE Vd(TRUE, {"ok-unjudged"}, [jd EXCEPT !.mem = IF ev.same THEN j.mem ELSE "lost"])
      [] OTHER                 -> Vd(FALSE, {"unknown.call"}, j)

J0 == [mem |-> "plain", disk |-> "none", via |-> FALSE, st |-> FALSE, rev |-> FALSE, inc |-> FALSE, del |-> 0]

\* The clauses by name (for the reader; Judge is their conjunction applied to one call):
\*   Restored : Decrypt with a right password returns Ok, every item equals its plaintext, no /Encrypt, no extra object
\*   Hidden   : after Encrypt no item with MustHide equals its plaintext
\*   Rejects  : a Wrong password gets Err from Decrypt / Auth* and the document is unchanged; the loader does not decrypt with it
\*   EitherPw : Right covers rel.u = "same" and rel.o = "same" alike
\*   ViaFile  : the same through Save ; Load (JudgeLoad, and Decrypt judged from j.mem = "enc" after Load)

-----------------------------------------------------------------------------
(* Impl-shaped layer: lopdf's walk                                          *)
(* st = [key, em, cf, stmf, strf] : what encrypt_object / decrypt_object read from EncryptionState *)

\* get_stream_filter / get_string_filter -> get_filter (since fix 7e2dedf): from V 4 on an absent or /Identity StmF / StrF
\* is the standard Identity filter; otherwise crypt_filters.get(name).unwrap_or(Rc4CryptFilter)
ImplDefault(st, name) ==
    IF st.V >= 4 /\ name \in {"", "Identity"} THEN "Identity"
    ELSE LET m == CfMethod(st.cf, name) IN IF m = "none" THEN "RC4" ELSE m

ImplNamed(st, name) ==          \* override: crypt_filters.get(name) ... unwrap_or(IdentityCryptFilter)
    LET m == CfMethod(st.cf, name) IN IF m = "none" THEN "Identity" ELSE m

ImplStreamM(st, crypt) ==
    CASE st.V < 4 /\ ~Dev_cryptv -> ImplDefault(st, st.stmf)   \* repaired: the override exists from V 4 on only
      [] crypt.f # "none" /\ crypt.ind /\ Dev_cind -> "Identity"   \* a Reference is neither a dictionary nor a name: "no parameters"
      [] crypt.f = "name"   -> ImplNamed(st, crypt.n)
      [] crypt.f = "noname" -> "Identity"
      [] crypt.f = "arr"    -> IF Dev_dparr THEN ImplDefault(st, st.stmf) ELSE ImplNamed(st, crypt.n)
      [] crypt.f = "nodp"   -> "Identity"                     \* (since fix adccfdb) Crypt without decode parameters: Identity
      [] OTHER              -> ImplDefault(st, st.stmf)       \* "none": no Crypt filter entry

\* (a metadata stream with EncryptMetadata false: as the code is the function returns at once; repaired: the data is
\* kept, the dictionary is still walked - MetaKeep)
MetaKeep(st, o) == o.k = "stream" /\ o.typ = "Metadata" /\ ~st.em
Exempt(st, o) ==
    \/ o.k = "stream" /\ o.typ = "XRef"
    \/ MetaKeep(st, o) /\ Dev_mdstr
    \/ o.k = "dict" /\ o.typ = "Metadata" /\ ~st.em /\ Dev_mdict

RECURSIVE WalkE(_, _, _)
WalkE(st, id, o) ==             \* encrypt_object
    IF o.k \in {"other", "encdict", "gone"} \/ Exempt(st, o) THEN o
    ELSE IF o.k \in {"arr", "dict"} THEN [o EXCEPT !.v = [i \in DOMAIN o.v |-> WalkE(st, id, o.v[i])]]
    ELSE IF o.k = "str" THEN [o EXCEPT !.pl = Enc(ImplDefault(st, st.strf), <<st.key, id>>, o.pl)]
    ELSE [o EXCEPT !.pl = IF MetaKeep(st, o) THEN @ ELSE Enc(ImplStreamM(st, o.crypt), <<st.key, id>>, o.pl),
                   !.d  = IF Dev_h13 THEN @ ELSE [i \in DOMAIN @ |-> WalkE(st, id, @[i])]]

RECURSIVE WalkD(_, _, _)
\* decrypt_object: [o, err]; the first error aborts the walk (what was done stays done)
WalkDSeq(st, id, s) ==
    LET F[i \in 0..Len(s)] ==
            IF i = 0 THEN [v |-> <<>>, err |-> ""]
            ELSE LET a == F[i - 1] IN
                 IF a.err # "" THEN [v |-> Append(a.v, s[i]), err |-> a.err]
                 ELSE LET r == WalkD(st, id, s[i]) IN [v |-> Append(a.v, r.o), err |-> r.err]
    IN F[Len(s)]

WalkD(st, id, o) ==
    IF o.k \in {"other", "encdict", "gone"} \/ Exempt(st, o) THEN [o |-> o, err |-> ""]
    ELSE IF o.k \in {"arr", "dict"} THEN LET r == WalkDSeq(st, id, o.v) IN [o |-> [o EXCEPT !.v = r.v], err |-> r.err]
    ELSE IF o.k = "str" THEN LET r == Dec(ImplDefault(st, st.strf), <<st.key, id>>, o.pl) IN [o |-> [o EXCEPT !.pl = r.pl], err |-> r.err]
    ELSE LET rd == IF Dev_h13 THEN [v |-> o.d, err |-> ""] ELSE WalkDSeq(st, id, o.d) IN
         IF rd.err # "" THEN [o |-> [o EXCEPT !.d = rd.v], err |-> rd.err]
         ELSE IF MetaKeep(st, o) THEN [o |-> [o EXCEPT !.d = rd.v], err |-> ""]
         ELSE LET r == Dec(ImplStreamM(st, o.crypt), <<st.key, id>>, o.pl) IN [o |-> [o EXCEPT !.d = rd.v, !.pl = r.pl], err |-> r.err]

-----------------------------------------------------------------------------
(* Impl-shaped layer: the calls.                                            *)
(* s = [objs, tenc, enc, st, disk, res]                                     *)
(*   objs: 1..n -> object (object-id order; the encryption dictionary, when  *)
(*   present, is the last one);  tenc: 0 or the position the trailer's       *)
(*   /Encrypt points to;  enc: the encryption dictionary's content or NoEnc; *)
(*   st: the EncryptionState the caller holds or NoSt;  disk: NoDisk or the   *)
(*   saved [objs, tenc, enc];  res: [ok, tag] of the last call.               *)

NoEnc == [V |-> 0]
NoSt == [key |-> ""]
NoDisk == [tenc |-> 0, none |-> TRUE]
Ok == [ok |-> TRUE, tag |-> "Ok"]
Err(t) == [ok |-> FALSE, tag |-> t]

S0(objs) == [objs |-> objs, tenc |-> 0, enc |-> NoEnc, st |-> NoSt, disk |-> NoDisk, res |-> [ok |-> TRUE, tag |-> "-"]]

\* EncryptionState::try_from(EncryptionVersion::..): V1 / V2 carry no crypt filters and always encrypt metadata
MkState(cfg) ==
    [key |-> "K", V |-> cfg.V, R |-> cfg.R, klen |-> cfg.klen,
     em |-> IF cfg.V < 4 THEN TRUE ELSE cfg.em,
     cf |-> IF cfg.V < 4 THEN <<>> ELSE cfg.cf,
     stmf |-> IF cfg.V < 4 THEN "" ELSE cfg.stmf,
     strf |-> IF cfg.V < 4 THEN "" ELSE cfg.strf]

\* authenticate_{user,owner}_password on the canonical form of the offered password
\* (as the code is, revisions 2-4: on what is left of the password after the characters PDFDocEncoding lacks were dropped;
\* repaired: such a password is refused with an error)
AuthU(cfg, pw) == IF cfg.R <= 4 /\ Dev_drop THEN pw.ud
                  ELSE pw.rep /\ pw.u \in {"same", "equiv"} /\ ~(cfg.R >= 5 /\ Dev_t127 /\ cfg.ulen > 127)
AuthO(cfg, pw) == IF cfg.R <= 4 /\ Dev_drop THEN pw.od
                  ELSE pw.rep /\ pw.o \in {"same", "equiv"} /\ ~(cfg.R >= 5 /\ Dev_t127 /\ cfg.olen > 127)

\* EncryptionState::decode: compute_file_encryption_key(document, password)
DecKey(cfg, pw) ==
    IF cfg.R >= 5 THEN "K"                                       \* Algorithm 2.A: the key comes out of /OE or /UE
    ELSE IF Dev_h12 THEN (IF AuthU(cfg, pw) THEN "K" ELSE "Kbad")            \* Algorithm 2 on the offered password itself
    ELSE "K"                                                     \* repaired: the user password recovered from /O (Algorithm 7)

\* sanitize_password_r4 / _r6: SASLprep refuses what it cannot prepare; PDFDocEncoding (repaired) what it cannot encode
StepMakeState(cfg, s) ==
    IF ~(cfg.urep /\ cfg.orep) /\ ~(cfg.R <= 4 /\ Dev_drop) THEN [s EXCEPT !.st = NoSt, !.res = Err("Password")]
    ELSE [s EXCEPT !.st = MkState(cfg), !.res = Ok]
\* the caller builds a state for another configuration (cfg is the new one); a file of the old one is forgotten
StepRekey(cfg, s) == [StepMakeState(cfg, s) EXCEPT !.disk = NoDisk]

StepEncrypt(cfg, s) ==
    IF s.tenc # 0 THEN [s EXCEPT !.res = Err("AlreadyEncrypted")]
    ELSE LET n == Len(s.objs)
             w == [i \in 1..n |-> WalkE(s.st, i, s.objs[i])]
         IN [s EXCEPT !.objs = Append(w, [k |-> "encdict"]), !.tenc = n + 1,
                      !.enc = [V |-> s.st.V, R |-> s.st.R, em |-> s.st.em, cf |-> s.st.cf, stmf |-> s.st.stmf, strf |-> s.st.strf],
                      !.res = Ok]

DecState(cfg, s, pw) ==
    [key |-> DecKey(cfg, pw), V |-> s.enc.V, em |-> s.enc.em, cf |-> s.enc.cf, stmf |-> s.enc.stmf, strf |-> s.enc.strf]

StepDecrypt(cfg, s, pw) ==
    IF s.tenc = 0 THEN [s EXCEPT !.res = Err("NotEncrypted")]
    ELSE IF ~(AuthO(cfg, pw) \/ AuthU(cfg, pw)) THEN [s EXCEPT !.res = Err("IncorrectPassword")]
    ELSE LET ds == DecState(cfg, s, pw)
             n  == Len(s.objs)
             F[i \in 0..n] ==
                 IF i = 0 THEN [v |-> <<>>, err |-> ""]
                 ELSE LET a == F[i - 1] IN
                      IF a.err # "" \/ i = s.tenc THEN [v |-> Append(a.v, s.objs[i]), err |-> a.err]
                      ELSE LET r == WalkD(ds, i, s.objs[i]) IN [v |-> Append(a.v, r.o), err |-> r.err]
             r == F[n]
             \* "Add the objects from the object streams now that they have been decrypted": every container whose
             \* content came out readable is parsed again and its members are merged into the objects with
             \* entry(id).or_insert(member): a live object is NEVER replaced (all members are live here, objects are
             \* never deleted in this model, so the merge changes nothing unless the seeded defect Dev_osrep is on).
             ghosts == UNION {{r.v[i].mem[x] : x \in DOMAIN r.v[i].mem} :
                              i \in {x \in 1..n : r.v[x].k = "stream" /\ r.v[x].typ = "ObjStm" /\ IsPlain(r.v[x].pl)}}
             merged == [i \in 1..n |->
                          \* an object the caller deleted ([k |-> "gone", there |-> FALSE, was]) is absent: or_insert puts the copy back
                          IF (Dev_osres \/ Dev_osrep) /\ r.v[i].k = "gone" /\ ~r.v[i].there /\ \E g \in ghosts : g.pos = i
                          THEN [k |-> "gone", there |-> TRUE, was |-> (CHOOSE g \in ghosts : g.pos = i).obj]
                          ELSE IF r.v[i].k = "gone" THEN r.v[i]
                          ELSE IF Dev_osrep /\ \E g \in ghosts : g.pos = i THEN (CHOOSE g \in ghosts : g.pos = i).obj
                          ELSE r.v[i]]
         IN IF r.err # "" THEN [s EXCEPT !.objs = r.v, !.res = Err(r.err)]
            ELSE [s EXCEPT !.objs = [i \in 1..(n - 1) |-> IF i < s.tenc THEN merged[i] ELSE merged[i + 1]],
                           !.tenc = 0, !.enc = NoEnc, !.res = Ok]

\* The caller edits the unencrypted document: every string of the object at position pos (and its content, if it is a
\* stream) gets a new value, 3 bytes longer.  The copy a container holds of the object is the old one from then on.
ChangePl(how, pl) ==
    IF how = "edit" THEN [pl EXCEPT !.ed = @ + 1, !.n0 = @ + 3, !.base = "P", !.gl = 0, !.layers = <<>>]
    ELSE [pl EXCEPT !.base = "O"]

RECURSIVE MapPl(_, _)
MapPl(how, o) ==
    CASE o.k = "str"    -> [o EXCEPT !.pl = ChangePl(how, @)]
      [] o.k \in {"arr", "dict"} -> [o EXCEPT !.v = [i \in DOMAIN @ |-> MapPl(how, @[i])]]
      [] o.k = "stream" -> [o EXCEPT !.pl = ChangePl(how, @), !.d = [i \in DOMAIN @ |-> MapPl(how, @[i])]]
      [] OTHER          -> o

Editable(s, pos) ==
    /\ s.tenc = 0 /\ pos \in 1..Len(s.objs)
    /\ s.objs[pos].k \in {"str", "arr", "dict", "stream"}
    /\ s.objs[pos].k = "stream" => s.objs[pos].typ \notin Bookkeeping

\* the caller removes a (non-stream) object from the unencrypted document
Deletable(s, pos) == s.tenc = 0 /\ pos \in 1..Len(s.objs) /\ s.objs[pos].k \in {"str", "arr", "dict"}
StepDelete(cfg, s, pos) ==
    [s EXCEPT !.res = Ok, !.objs = [i \in DOMAIN s.objs |-> IF i = pos THEN [k |-> "gone", there |-> FALSE, was |-> s.objs[i]] ELSE s.objs[i]]]

StepEdit(cfg, s, pos) ==
    [s EXCEPT !.res = Ok,
              \* a file saved earlier keeps the old values
              !.disk = IF s.disk = NoDisk THEN NoDisk
                       ELSE [s.disk EXCEPT !.objs = [i \in DOMAIN @ |-> IF i = pos THEN MapPl("stale", @[i]) ELSE @[i]]],
              !.objs = [i \in DOMAIN s.objs |->
                          IF i = pos THEN MapPl("edit", s.objs[i])
                          ELSE IF s.objs[i].k = "stream" /\ s.objs[i].mem # <<>>
                          THEN [s.objs[i] EXCEPT !.mem = [x \in DOMAIN @ |-> IF @[x].pos = pos THEN [@[x] EXCEPT !.obj = MapPl("stale", @)] ELSE @[x]]]
                          ELSE s.objs[i]]]

StepAuth(cfg, s, call, pw) ==
    IF s.tenc = 0 THEN [s EXCEPT !.res = Err("NotEncrypted")]
    ELSE LET ok == CASE call = "AuthUser"  -> AuthU(cfg, pw)
                     [] call = "AuthOwner" -> AuthO(cfg, pw)
                     [] OTHER              -> AuthO(cfg, pw) \/ AuthU(cfg, pw)
         IN [s EXCEPT !.res = IF ok THEN Ok ELSE Err("IncorrectPassword")]

StepSave(cfg, s) == [s EXCEPT !.disk = [objs |-> s.objs, tenc |-> s.tenc, enc |-> s.enc], !.res = Ok]

\* Reader::read: if authenticate_password("") is Ok then decrypt("")?  A failing load leaves the caller's document as it was.
StepLoad(cfg, s) ==
    LET s1 == [s EXCEPT !.objs = s.disk.objs, !.tenc = s.disk.tenc, !.enc = s.disk.enc, !.res = Ok] IN
    IF s1.tenc # 0 /\ (AuthO(cfg, cfg.e) \/ AuthU(cfg, cfg.e))
    THEN LET s2 == StepDecrypt(cfg, s1, cfg.e) IN IF s2.res.ok THEN s2 ELSE [s EXCEPT !.res = s2.res]
    ELSE s1

Step(cfg, s, c) ==
    CASE c.call = "MakeState" -> StepMakeState(cfg, s)
      [] c.call = "Encrypt"   -> StepEncrypt(cfg, s)
      [] c.call = "Decrypt"   -> StepDecrypt(cfg, s, c.rel)
      [] c.call \in {"AuthUser", "AuthOwner", "Auth"} -> StepAuth(cfg, s, c.call, c.rel)
      [] c.call = "Save"      -> StepSave(cfg, s)
      [] c.call = "Load"      -> StepLoad(cfg, s)
      [] c.call = "Edit"      -> StepEdit(cfg, s, c.pos)
      [] c.call = "Rekey"     -> StepRekey(cfg, s)
      [] c.call = "Delete"    -> StepDelete(cfg, s, c.pos)

\* which calls the drivers issue in which state (Encrypt needs a state, Load a file)
Callable(s, c) ==
    CASE c.call = "Encrypt" -> s.st # NoSt
      [] c.call = "Load"    -> s.disk # NoDisk
      [] c.call = "Edit"    -> Editable(s, c.pos)
      [] c.call = "Rekey"   -> s.tenc = 0
      [] c.call = "Delete"  -> Deletable(s, c.pos)
      [] OTHER              -> TRUE

-----------------------------------------------------------------------------
(* Observation of a symbolic document: the item list in the order the       *)
(* harness logs it (objects in id order; depth first; a stream's content     *)
(* before the entries of its dictionary).                                    *)

Item(kind, insd, otyp, inmd, osm, crypt, pl) ==
    [kind |-> kind, insd |-> insd, otyp |-> otyp, inmd |-> inmd, osm |-> osm, crypt |-> crypt, len |-> pl.n0,
     eq |-> IsPlain(pl), present |-> TRUE, gone |-> FALSE]

RECURSIVE ItemsOf(_, _, _, _, _)
ItemsSeq(s, insd, otyp, inmd, osm) ==
    LET F[i \in 0..Len(s)] == IF i = 0 THEN <<>> ELSE F[i - 1] \o ItemsOf(s[i], insd, otyp, inmd, osm) IN F[Len(s)]

ItemsOf(o, insd, otyp, inmd, osm) ==
    CASE o.k = "str"    -> <<Item("str", insd, otyp, inmd, osm, NoCrypt, o.pl)>>
      [] o.k = "arr"    -> ItemsSeq(o.v, insd, otyp, inmd, osm)
      [] o.k = "dict"   -> ItemsSeq(o.v, insd, otyp, inmd \/ o.typ = "Metadata", osm)
      [] o.k = "stream" -> <<Item("stream", FALSE, o.typ, FALSE, osm, o.crypt, o.pl)>> \o ItemsSeq(o.d, TRUE, o.typ, FALSE, osm)
      \* a deleted object keeps its item slots: absent, or (there) back again
      [] o.k = "gone"   -> LET its == ItemsOf(o.was, insd, otyp, inmd, osm) IN
                           [i \in DOMAIN its |-> [its[i] EXCEPT !.gone = TRUE, !.present = o.there, !.eq = o.there /\ @]]
      [] OTHER          -> <<>>

\* positions of the objects some container of the document holds a copy of
MemberPos(objs) ==
    UNION {{objs[i].mem[x].pos : x \in DOMAIN objs[i].mem} : i \in {x \in 1..Len(objs) : objs[x].k = "stream"}}

Items(objs) ==
    LET mp == MemberPos(objs)
        F[i \in 0..Len(objs)] == IF i = 0 THEN <<>> ELSE F[i - 1] \o ItemsOf(objs[i], FALSE, "-", FALSE, i \in mp)
    IN F[Len(objs)]

\* bookkeeping objects (typed /XRef, /ObjStm; never written by save) are not counted
NObj(objs) == Cardinality({i \in 1..Len(objs) : ~(objs[i].k \in {"stream", "dict"} /\ objs[i].typ \in Bookkeeping)
                                              /\ ~(objs[i].k = "gone" /\ ~objs[i].there)})

\* the observation record of a call that led from s to t
Observe(s, t, c) ==
    [call |-> c.call, rel |-> c.rel, res |-> IF t.res.ok THEN "Ok" ELSE "Err", tenc |-> t.tenc # 0,
     nobj |-> NObj(t.objs), items |-> Items(t.objs), same |-> (t.objs = s.objs /\ t.tenc = s.tenc)]
=============================================================================
